"""Broker-level histories (engine BL): Exchange + Broker driven directly.

Serves C01 (ledger identity and per-operation deltas), C05 (post-conditions
evaluated inside the hooks on the valuation / marking / trading entry points)
and C03 (rebalances inside random histories)."""
import math
from datetime import datetime, timedelta

from tradingenv.contracts import Cash
from tradingenv.broker.broker import Broker, EndOfEpisodeError
from tradingenv.broker.trade import Trade
from tradingenv.broker.fees import BrokerFees
from tradingenv.broker.rebalancing import Rebalancing
from tradingenv.events import EventNBBO
from tradingenv.contracts import Rate, ES, ZN, ETF

from vf import gen, monitor
from vf.ledger import Ledger

REL = 1e-9


class MarginMonitor(monitor.Recorder):
    """C05 post-conditions, evaluated inside the hooks, reading only the
    non-mutating public views of the broker and the exchange's books."""

    def __init__(self, ctx, contracts, active=True):
        super().__init__()
        self.ctx = ctx
        self.contracts = list(contracts)
        self.active = active

    # -- helpers ------------------------------------------------------------ #
    def _liq(self, broker, c, q):
        book = broker.exchange[c]
        return gen.liq_side(q, book.bid_price, book.ask_price)

    def _margin_ok(self, broker, c, where):
        hq = broker.holdings_quantity
        hm = broker.holdings_margins
        q = hq.get(c, 0.0)
        m = hm.get(c, 0.0)
        liq = self._liq(broker, c, q)
        if q != 0 and math.isnan(liq):
            self.ctx.cat("hook:skipped-no-quote")
            return
        want = c.margin_requirement * c.multiplier * abs(q) * liq if q != 0 else 0.0
        if c.margin_requirement == 0:
            self.ctx.check("C05:no-margin-for-spot@" + where, m == 0.0, contract=c.symbol, margin=m)
        else:
            self.ctx.check("C05:margin@" + where,
                           m >= 0 and abs(m - want) <= REL * max(1.0, want),
                           contract=c.symbol, margin=m, want=want, pos=q, liq=liq)
            if q == 0:
                self.ctx.check("C05:flat-zero-margin@" + where, m == 0.0, contract=c.symbol, margin=m)

    def _decomposition(self, broker):
        """cash + margins + liquidation value of fully paid positions."""
        hq = broker.holdings_quantity
        hm = broker.holdings_margins
        total = hq.get(broker.base_currency, 0.0)
        gross = abs(total)
        for c, q in hq.items():
            if isinstance(c, Cash):
                continue
            m = hm.get(c, 0.0)
            total += m
            gross += abs(m)
            if q != 0 and c.cash_requirement != 0:
                v = c.cash_requirement * q * self._liq(broker, c, q) * c.multiplier
                total += v
                gross += abs(v)
        return total, gross

    def _all_quoted(self, broker):
        for c, q in broker.holdings_quantity.items():
            if q != 0 and not isinstance(c, Cash) and math.isnan(self._liq(broker, c, q)):
                return False
        return True

    # -- hooks -------------------------------------------------------------- #
    def post_Broker_net_liquidation_value(self, b, a, k, tok, res, exc):
        if not self.active or (exc is not None and not isinstance(exc, EndOfEpisodeError)):
            return
        if not self._all_quoted(b):
            return
        for c in self.contracts:
            self._margin_ok(b, c, "valuation")
        if exc is None:
            total, gross = self._decomposition(b)
            self.ctx.check("C05:decomposition@valuation", abs(total - res) <= REL * max(1.0, gross),
                           total=total, reported=res)

    def post_Broker_marking_to_market(self, b, a, k, tok, res, exc):
        if not self.active or exc is not None:
            return
        target = a[0] if a else k.get("contract")
        if target is None:
            for c in self.contracts:
                self._margin_ok(b, c, "mark-all")
        else:
            if getattr(self, "_in_transact", 0):
                # first marking inside transact precedes the trade: also promised
                self._margin_ok(b, target.static_hashing(), "mark-in-trade")
            else:
                self._margin_ok(b, target.static_hashing(), "mark-one")

    def pre_Broker_transact(self, b, a, k):
        self._in_transact = getattr(self, "_in_transact", 0) + 1

    def post_Broker_transact(self, b, a, k, tok, res, exc):
        self._in_transact -= 1
        if not self.active or exc is not None:
            return
        trade = a[0] if a else k["trade"]
        self._margin_ok(b, trade.contract.static_hashing(), "trade")

    def post_Broker_holdings_weights(self, b, a, k, tok, res, exc):
        if not self.active or exc is not None or not self._all_quoted(b):
            return
        for c in self.contracts:
            self._margin_ok(b, c, "weights")
        total, gross = self._decomposition(b)
        hq = b.holdings_quantity
        for c, w in res.items():
            q = hq.get(c, 0.0)
            if isinstance(c, Cash):
                want = q / total
            else:
                want = q * self._liq(b, c, q) * c.multiplier / total if q != 0 else 0.0
            self.ctx.check("C05:weight@weights", abs(w - want) <= REL * max(1.0, abs(want)) * max(1.0, gross / abs(total)),
                           contract=c.symbol, weight=w, want=want)

    def post_Broker_context(self, b, a, k, tok, res, exc):
        if not self.active or exc is not None or not self._all_quoted(b):
            return
        total, gross = self._decomposition(b)
        tol = REL * max(1.0, gross)
        self.ctx.check("C05:context-nlv", abs(res.nlv - total) <= tol, nlv=res.nlv, total=total)
        hq = b.holdings_quantity
        hm = b.holdings_margins
        ok = True
        for c, q in hq.items():
            if res.nr_contracts.get(c, 0.0) != q:
                ok = False
            if isinstance(c, Cash):
                continue
            liq = self._liq(b, c, q)
            want_v = q * liq * c.multiplier if q != 0 else 0.0
            if abs(res.values.get(c, 0.0) - want_v) > REL * max(1.0, abs(want_v)):
                ok = False
            want_w = want_v / total
            if abs(res.weights.get(c, 0.0) - want_w) > REL * max(1.0, abs(want_w)) * max(1.0, gross / abs(total)):
                ok = False
        for c, m in hm.items():
            if res.margins.get(c, 0.0) != m:
                ok = False
        self.ctx.check("C05:context-consistent", ok,
                       nr=res.nr_contracts, values=res.values, weights=res.weights, margins=res.margins,
                       holdings=hq, margins_now=hm)


# --------------------------------------------------------------------------- #
def history(ctx, props):
    """One random broker history.  `props` selects which oracle clauses are
    evaluated ('C01', 'C03', 'C05')."""
    rng = ctx.rng
    pool = gen.contract_pool(rng)
    cs = pool[: rng.randint(1, 5)]
    rate_c = Rate("R")
    fees = BrokerFees(
        markup=rng.choice([0, 0, 0.002]), interest_rate=rate_c,
        fixed=rng.choice([0, 0, 1.5]), proportional=rng.choice([0, 1e-4, 5e-3]))
    t = datetime(2019, 1, 1)
    rate = rng.choice([0.0, 0.0, 0.01, 0.05, -0.005])
    ex = gen.new_exchange(t, fees, rate)
    dep = rng.choice([1e3, 1e5, 1e7])
    b = Broker(ex, deposit=dep, fees=fees)
    led = Ledger(dep, fees)
    mid = dict()
    ops_log = []
    nontrivial = False
    nt05 = False
    last_reb = None
    unreported = [0.0]         # interest credited by refused requests, not yet reported by a recorded one

    def quote(c):
        if c in mid:
            mid[c] = mid[c] * math.exp(rng.gauss(0, 0.02))
        else:
            mid[c] = rng.choice([0.5, 20.0, 100.0, 3000.0]) * rng.uniform(0.9, 1.1)
        sp = rng.choice([0, 0, 1e-4, 1e-2, 0.1])
        bid = mid[c] * (1 - sp / 2)
        ask = mid[c] * (1 + sp / 2)
        if c in led.quotes and rng.random() < 0.2:
            # only one side of the book moves (the other keeps its exact previous value)
            ob, oa = led.quotes[c]
            if rng.random() < 0.5:
                bid, ask = ob, max(ob, oa * math.exp(rng.gauss(0, 0.01)))
            else:
                bid, ask = min(oa, ob * math.exp(rng.gauss(0, 0.01))), oa
            mid[c] = (bid + ask) / 2
            ctx.cat("quote:one-side-only")
        led.quote(c, bid, ask)
        if rng.random() < 0.3:
            # finite displayed sizes (smaller than the orders): prices, not sizes, drive the accounting
            ex.process_EventNBBO(EventNBBO(t, c, bid, ask, rng.choice([1.0, 100.0]), rng.choice([1.0, 200.0])))
            ctx.cat("quote:finite-sizes")
        else:
            ex.process_EventNBBO(EventNBBO(t, c, bid, ask))
        return bid, ask

    for c in cs:
        quote(c)

    # a SECOND account on the same exchange holding the opposite position in the first margined
    # contract: its valuations interleave with the first account's and must not disturb either
    other = None
    marg = [c for c in cs if gen.is_margined(c)]
    if marg and rng.random() < 0.25:
        oc = marg[0]
        other = Broker(ex, deposit=dep, fees=fees)
        oled = Ledger(dep, fees)
        oq = -rng.choice([-1, 1]) * 0.3 * dep / (mid[oc] * oc.multiplier)
        oled.quotes = led.quotes            # same market
        other.transact(Trade(t, oc, oq, ex[oc].bid_price, ex[oc].ask_price, fees))
        oled.trade(oc, oq)
        ctx.cat("second-account-same-exchange")
    mon = MarginMonitor(ctx, cs, active="C05" in props)
    with mon:
        v_prev = b.net_liquidation_value(False)
        n_ops = rng.randint(5, 60)
        for i in range(n_ops):
            op = rng.choice(["quote", "trade", "trade", "mtm", "val", "weights", "context", "reb"])
            delta_want = None
            if op == "reb" and v_prev > 0 and rng.random() < 0.12:
                # a request that is REFUSED while its trades are computed (it targets a contract that has never been
                # quoted); the caller catches the error and goes on using the account: quotes, trades and
                # valuations behave as if the request had never been made (the elapsed interest may be credited)
                t = t + timedelta(seconds=rng.choice([1, 3600]))
                ghost = ETF("NEVER_QUOTED")
                r = Rebalancing(list(cs) + [ghost], [rng.uniform(-0.2, 0.3) for _ in cs] + [0.1], time=t)
                try:
                    b.rebalance(r)
                    refused = False
                except EndOfEpisodeError:
                    refused = None
                except Exception:
                    refused = True
                if refused is not None:
                    ctx.check("C13:rebalance-raises-when-missing", refused, scenario="history", target="never quoted")
                # the interest of the elapsed period was credited (C13 allows it); it is REPORTED by the next recorded
                # rebalance, together with that one's own
                if isinstance(r.profit_on_idle_cash, float) or hasattr(r.profit_on_idle_cash, "__float__"):
                    led.interest += float(r.profit_on_idle_cash) - unreported[0]
                    unreported[0] = float(r.profit_on_idle_cash)
                ctx.cat("op:rebalance-refused-then-carry-on")
                ops_log.append(["rebalance-refused"])
                op = "val"
                delta_want = None
            elif op == "quote":
                c = rng.choice(cs)
                p = led.pos.get(c, 0.0)
                liq0 = led.liq(c)
                quote(c)
                delta_want = p * c.multiplier * (led.liq(c) - liq0) if p != 0 else 0.0
                ctx.cat("op:quote")
                ops_log.append(["quote", c.symbol, led.quotes[c]])
            elif op == "trade":
                if v_prev <= 0:
                    ctx.cat("op:trade-skipped-insolvent")
                    continue
                c = rng.choice(cs)
                p = led.pos.get(c, 0.0)
                kind = rng.choice(["open", "add", "reduce", "close", "flip", "flip-smaller"] + (["dust"] if rng.random() < 0.15 else [])) if p != 0 else "open"
                unit = v_prev / (mid[c] * c.multiplier)
                if kind == "dust":
                    # leave a residual below the broker's documented dust threshold (1e-7): the
                    # position is snapped to zero (DESIGN 4.2-a) and must then be flat in every respect
                    dq = -(p - math.copysign(rng.choice([5e-8, 9e-8, 1e-9]), p))
                elif kind == "flip-smaller":
                    dq = -p * rng.uniform(1.05, 1.95)
                elif kind == "open":
                    dq = rng.choice([-1, 1]) * rng.uniform(0.05, 1.5) * unit
                elif kind == "add":
                    dq = math.copysign(rng.uniform(0.05, 1.0) * unit, p)
                elif kind == "reduce":
                    dq = -p * rng.uniform(0.1, 0.9)
                elif kind == "close":
                    dq = -p
                else:
                    dq = -p * rng.uniform(1.1, 2.5)
                if rng.random() < 0.2:
                    dq = float(round(dq)) or math.copysign(1.0, dq)
                    if p != 0 and kind == "close":
                        dq = -p
                if kind != "dust":
                    dq = _avoid_dust(p, dq)
                bid, ask = led.quotes[c]
                liq_old = led.liq(c)
                px = ask if dq > 0 else bid
                tr = Trade(t, c, dq, ex[c].bid_price, ex[c].ask_price, fees)
                b.transact(tr)
                snaps0 = led.snaps
                cm = led.trade(c, dq, px)
                p_new = led.pos[c]
                delta_want = -cm + c.multiplier * (
                    (p_new * led.liq(c) if p_new != 0 else 0.0)
                    - (p * liq_old if p != 0 else 0.0) - dq * px)
                if led.snaps != snaps0:
                    delta_want = None      # documented epsilon snap (4.2-a): judged by the identity only
                    ctx.cat("delta-skipped-epsilon-snap")
                if "C01" in props:
                    ctx.check("C01:trade-fields", tr.acq_price == px and
                              abs(tr.cost_of_commissions - cm) <= 1e-12 * max(1.0, cm),
                              acq=tr.acq_price, px=px, comm=tr.cost_of_commissions, want=cm)
                mk = "margined" if gen.is_margined(c) else "spot"
                ctx.cat("op:trade:{}:{}:{}".format(kind, mk, "long" if p_new > 0 else "short" if p_new < 0 else "flat"))
                sp_pos = ask > bid
                if (gen.is_margined(c) and kind in ("add", "flip") and sp_pos) or \
                        (not gen.is_margined(c) and c.multiplier != 1.0):
                    nontrivial = True
                ops_log.append(["trade", kind, c.symbol, dq])
            elif op == "mtm":
                tgt = rng.choice([None] + cs)
                b.marking_to_market(tgt)
                delta_want = 0.0
                ctx.cat("op:mark-all" if tgt is None else "op:mark-one")
                ops_log.append(["mark", None if tgt is None else tgt.symbol])
            elif op == "val":
                delta_want = 0.0
                ctx.cat("op:valuation")
                ops_log.append(["value"])
            elif op == "weights":
                if v_prev <= 0:
                    continue
                w = b.holdings_weights()
                delta_want = 0.0
                ctx.cat("op:weights")
                ops_log.append(["weights"])
                if "C05" in props or "C01" in props:
                    nlv_l = led.nlv()
                    for c in cs:
                        ctx.check("C05:weight-vs-ledger",
                                  abs(w.get(c, 0.0) - led.weight(c, nlv_l)) <= REL * max(1.0, abs(led.weight(c, nlv_l))) * max(1.0, led.scale() / abs(nlv_l)),
                                  contract=c.symbol, got=w.get(c, 0.0), want=led.weight(c, nlv_l))
            elif op == "context":
                if v_prev <= 0:
                    continue
                cx = b.context()
                delta_want = 0.0
                ctx.cat("op:context")
                ops_log.append(["context"])
                if "C01" in props:
                    ctx.check("C01:context-nlv", abs(cx.nlv - led.nlv()) <= REL * led.scale(), got=cx.nlv, want=led.nlv())
            elif op == "reb":
                if v_prev <= 0:
                    continue
                t = t + timedelta(seconds=rng.choice([1, 3600, 86400]))
                if rng.random() < 0.3:
                    rate = rng.choice([0.0, 0.01, 0.05, -0.005])
                    ex.process_EventNBBO(EventNBBO(t, rate_c, rate, rate))
                measure = "weight" if rng.random() < 0.75 else "nr-contracts"
                if measure == "weight":
                    tgt = [rng.choice([0, 0, rng.uniform(-1.5, 2.0)]) for _ in cs]
                else:
                    tgt = [rng.choice([0, float(rng.randint(-20, 20)), rng.uniform(-10, 10)]) * v_prev / (mid[c] * c.multiplier) / 10
                           for c in cs]
                keys = list(cs)
                if last_reb is not None and rng.random() < 0.25:
                    # same target again after a small drift: the imbalances are tiny (their
                    # notional can be below a fixed commission) and must still be traded
                    measure, keys, tgt = last_reb
                    keys, tgt = list(keys), list(tgt)
                    ctx.cat("op:rebalance-repeat-target")
                elif rng.random() < 0.3:
                    # drop some contracts from the target: held ones must be closed
                    keep = [rng.random() < 0.6 for _ in cs]
                    keys = [c for c, kp in zip(cs, keep) if kp]
                    tgt = [x for x, kp in zip(tgt, keep) if kp]
                last_reb = (measure, list(keys), list(tgt))
                r = Rebalancing(keys, tgt, measure=measure, time=t)
                pos_before = dict(led.pos)
                try:
                    b.rebalance(r)
                    failed = False
                except EndOfEpisodeError:
                    failed = True
                if isinstance(r.profit_on_idle_cash, float) or hasattr(r.profit_on_idle_cash, "__float__"):
                    led.interest += float(r.profit_on_idle_cash) - unreported[0]
                    # (a request that ends the episode is not recorded either: what it reports stays 'unreported')
                    unreported[0] = 0.0 if not failed else float(r.profit_on_idle_cash)
                pre_l = led.nlv()
                if failed:
                    # NLV <= 0 either before trading (no trades) or after the
                    # trades were executed (costs exceeded NLV): the executed
                    # trades are part of the history.
                    if isinstance(r.trades, list):
                        ctx.cat("op:rebalance-insolvent-after-trades")
                        for tr in r.trades:
                            led.trade(tr.contract, tr.quantity, led.exec_price(tr.contract, tr.quantity))
                    ctx.cat("op:rebalance-insolvent")
                    ctx.check("C01:nlv-identity", abs(b.net_liquidation_value(False) - led.nlv()) <= REL * led.scale())
                    v_prev = led.nlv()
                    continue
                if "C01" in props:
                    ctx.check("C01:context-pre", abs(r.context_pre.nlv - pre_l) <= REL * led.scale(),
                              got=r.context_pre.nlv, want=pre_l)
                for tr in r.trades:
                    c = tr.contract
                    px = led.exec_price(c, tr.quantity)
                    if "C01" in props:
                        ctx.check("C01:rebalance-trade-price", tr.acq_price == px, acq=tr.acq_price, want=px)
                    led.trade(c, tr.quantity, px)
                    if gen.is_margined(c) and pos_before.get(c, 0.0) != 0 and led.quotes[c][1] > led.quotes[c][0]:
                        nontrivial = True
                    if not gen.is_margined(c) and c.multiplier != 1.0:
                        nontrivial = True
                delta_want = None  # interest + several trades: identity check below decides
                ctx.cat("op:rebalance:" + measure)
                ops_log.append(["rebalance", measure, [c.symbol for c in keys], tgt])
                if "C01" in props:
                    ctx.check("C01:context-post", abs(r.context_post.nlv - led.nlv()) <= REL * led.scale(),
                              got=r.context_post.nlv, want=led.nlv())
                if "C03" in props:
                    tmap = {c: x for c, x in zip(keys, tgt)}
                    for c in cs:
                        x = tmap.get(c, 0.0)
                        bid, ask = led.quotes[c]
                        got_q = led.pos.get(c, 0.0)
                        if measure == "weight":
                            px = ask if x > 0 else bid
                            got = got_q * c.multiplier * px
                            want = x * pre_l
                            # epsilon snap (4.2-a): a target below 1e-7 contracts is zeroed
                            tol = REL * max(1.0, abs(want), abs(pos_before.get(c, 0.0) * c.multiplier * px)) + 1.01e-7 * c.multiplier * px
                            ctx.check("C03:target-weight-reached", abs(got - want) <= tol,
                                      contract=c.symbol, got=got, want=want, w=x)
                        else:
                            tol = 8 * 2.3e-16 * max(1.0, abs(x), abs(pos_before.get(c, 0.0))) + (1.01e-7 if x != 0 else 0.0)
                            ctx.check("C03:target-contracts-reached", abs(got_q - x) <= tol,
                                      contract=c.symbol, got=got_q, want=x)
                        if c not in tmap or x == 0:
                            ctx.check("C03:untargeted-closed", got_q == 0.0, contract=c.symbol, got=got_q)
            if op == "quote" and rng.random() < 0.3:
                # no valuation now: whatever comes next (weights, context, a trade, a rebalance) is the
                # first thing to see the new quote
                ctx.cat("quote:valuation-deferred")
                v_prev = led.nlv()
                continue
            # ---- identity after every operation -------------------------------- #
            got = b.net_liquidation_value(False)
            want = led.nlv()
            tol = REL * led.scale()
            if "C01" in props:
                ctx.check("C01:nlv-identity", abs(got - want) <= tol, op=op, i=i, got=got, want=want, diff=got - want)
                if delta_want is not None:
                    ctx.check("C01:delta-" + ("quote" if op == "quote" else "trade" if op == "trade" else "noop"),
                              abs((got - v_prev) - delta_want) <= 2 * tol, op=op, got=got - v_prev, want=delta_want)
            if "C05" in props:
                hq = b.holdings_quantity
                hm = b.holdings_margins
                for c in cs:
                    ctx.check("C05:position-vs-ledger",
                              abs(hq.get(c, 0.0) - led.pos.get(c, 0.0)) <= REL * max(1.0, abs(led.pos.get(c, 0.0))),
                              contract=c.symbol, got=hq.get(c, 0.0), want=led.pos.get(c, 0.0))
                    wantm = led.margin(c)
                    ctx.check("C05:margin-vs-ledger", abs(hm.get(c, 0.0) - wantm) <= REL * max(1.0, wantm),
                              contract=c.symbol, got=hm.get(c, 0.0), want=wantm)
            margined_open = [c for c in cs if gen.is_margined(c) and led.pos.get(c, 0.0) != 0]
            if len(margined_open) >= 2 or any(led.pos[c] < 0 for c in margined_open):
                nt05 = True
            v_prev = got
            if other is not None and rng.random() < 0.6:
                mon.active, keep = False, mon.active
                ov = other.net_liquidation_value(False)
                mon.active = keep
                if "C01" in props or "C05" in props:
                    ctx.check("C01:second-account-identity", abs(ov - oled.nlv()) <= REL * oled.scale(), got=ov, want=oled.nlv(), i=i)
    ctx.cat("snaps:{}".format(min(led.snaps, 3)))
    ctx.notes['nt01'] = nontrivial
    ctx.notes['nt05'] = nt05
    ctx.sample = {
        "contracts": [gen.describe_contract(c) for c in cs], "deposit": dep,
        "fees": {"fixed": fees.fixed, "proportional": fees.proportional, "markup": fees.markup},
        "ops": ops_log[:40], "n_ops": len(ops_log),
    }
    return b, led


def _avoid_dust(p, dq):
    """Generators keep real quantities >= 1e-5 (DESIGN 4.2-a): a trade that would
    leave a residual below that becomes an exact close; an opening trade is at
    least 1e-4 contracts."""
    if p == 0 and abs(dq) < 1e-4:
        return math.copysign(1e-4, dq)
    if p != 0 and 0 < abs(p + dq) < 1e-5:
        return -p
    return dq


def twin_spot_future(ctx):
    """C01: 'the same amount for a future as for a spot asset quoted at the
    same prices' - the same trades and quotes applied to a spot-like and to a
    margined contract of equal multiplier change NLV identically."""
    rng = ctx.rng
    mult = rng.choice([0.1, 1.0, 5.0, 50.0, 1000.0])
    mr = rng.choice([0.004, 0.05, 0.3, 1.0])
    spot = gen.SpotMult("TWIN_S", mult)
    fut = gen.UserFuture("TWIN_F", mult, mr)
    fees = BrokerFees(fixed=rng.choice([0, 1.5]), proportional=rng.choice([0, 1e-4, 5e-3]))
    t = datetime(2019, 1, 1)
    dep = rng.choice([1e4, 1e6])
    brokers = []
    for c in (spot, fut):
        ex = gen.new_exchange(t, fees, 0.0)
        brokers.append((c, ex, Broker(ex, deposit=dep, fees=fees)))
    led = Ledger(dep, fees)
    mid = rng.choice([0.5, 20.0, 100.0, 3000.0])
    ops = []
    kinds = set()

    def quote():
        nonlocal mid
        mid *= math.exp(rng.gauss(0, 0.02))
        sp = rng.choice([0, 1e-4, 1e-2, 0.1])
        bid, ask = mid * (1 - sp / 2), mid * (1 + sp / 2)
        for c, ex, b in brokers:
            ex.process_EventNBBO(EventNBBO(t, c, bid, ask))
        led.quote(spot, bid, ask)
        return bid, ask

    bid, ask = quote()
    for i in range(rng.randint(4, 30)):
        if rng.random() < 0.45:
            bid, ask = quote()
            ops.append(["quote", bid, ask])
        else:
            p = led.pos.get(spot, 0.0)
            unit = dep / (mid * mult)
            kind = rng.choice(["open", "add", "reduce", "close", "flip"]) if p != 0 else "open"
            if kind == "open":
                dq = rng.choice([-1, 1]) * rng.uniform(0.05, 0.8) * unit
            elif kind == "add":
                dq = math.copysign(rng.uniform(0.05, 0.5) * unit, p)
            elif kind == "reduce":
                dq = -p * rng.uniform(0.1, 0.9)
            elif kind == "close":
                dq = -p
            else:
                dq = -p * rng.uniform(1.1, 2.5)
            dq = _avoid_dust(p, dq)
            kinds.add(kind)
            for c, ex, b in brokers:
                b.transact(Trade(t, c, dq, ex[c].bid_price, ex[c].ask_price, fees))
            led.trade(spot, dq)
            ops.append(["trade", kind, dq])
        v_s = brokers[0][2].net_liquidation_value(False)
        v_f = brokers[1][2].net_liquidation_value(False)
        tol = REL * led.scale()
        ctx.check("C01:twin-spot-future", abs(v_s - v_f) <= tol, i=i, spot=v_s, future=v_f, diff=v_s - v_f)
        ctx.check("C01:nlv-identity", abs(v_f - led.nlv()) <= tol, i=i, got=v_f, want=led.nlv())
    ctx.cat("twin")
    ctx.nontrivial = bool({"add", "flip"} & kinds)
    ctx.sample = {"twin": True, "mult": mult, "margin": mr, "deposit": dep, "ops": ops[:30]}


def special_quotes(ctx, props):
    """Broker history around two special market states of margined contracts:
    (a) a FLAT margined contract is discontinued (its book goes NaN) while others, traded before or after it,
        are still held and keep moving;
    (b) the liquidation quote of a HELD margined contract is exactly 0.0 at a valuation (posted margin is then
        0) and moves away from zero afterwards.
    After every operation: NLV = ledger identity (C01) and posted margin = requirement x multiplier x |position|
    x liquidation price for every margined contract (C05, through the MarginMonitor hooks)."""
    from tradingenv.events import EventContractDiscontinued
    rng = ctx.rng
    pool = [gen.UserFuture("N1", rng.choice([1.0, 10.0]), rng.choice([0.1, 0.25])), gen.UserFuture("N2", 5.0, 0.3),
            ES(2019, 6), ES(2019, 12), ZN(2019, 9), gen.AssetFuture("AF", 20, 0.2)]
    rng.shuffle(pool)
    cs = pool[: rng.randint(2, 4)]
    if rng.random() < 0.5:
        cs.append(gen.SpotMult("L10", 10.0))
    fees = BrokerFees(fixed=rng.choice([0, 1.5]), proportional=rng.choice([0, 1e-4]))
    t = datetime(2019, 1, 1)
    ex = gen.new_exchange(t, fees, 0.0)
    dep = rng.choice([1e5, 1e7])
    b = Broker(ex, deposit=dep, fees=fees)
    led = Ledger(dep, fees)
    mid = {}
    dead = set()

    def quote(c, bid=None, ask=None):
        if bid is None:
            mid[c] = mid.get(c, rng.choice([20.0, 100.0, 2500.0])) * math.exp(rng.gauss(0, 0.02))
            sp = rng.choice([0, 1e-4, 1e-2])
            bid, ask = mid[c] * (1 - sp / 2), mid[c] * (1 + sp / 2)
        ex.process_EventNBBO(EventNBBO(t, c, bid, ask))
        led.quote(c, bid, ask)

    def trade(c, dq):
        b.transact(Trade(t, c, dq, ex[c].bid_price, ex[c].ask_price, fees))
        led.trade(c, dq)

    def judge(op):
        got = b.net_liquidation_value(False)
        ctx.check("C01:nlv-identity", abs(got - led.nlv()) <= REL * led.scale(), op=op, got=got, want=led.nlv(),
                  diff=got - led.nlv(), scenario="special-quotes")

    for c in cs:
        quote(c)
    live = [c for c in cs]
    mon = MarginMonitor(ctx, cs, active="C05" in props)
    with mon:
        # open positions in random order; some are closed again (flat, but remembered by the account)
        order = list(cs)
        rng.shuffle(order)
        for c in order:
            unit = dep / (mid[c] * c.multiplier)
            trade(c, rng.choice([-1, 1]) * rng.uniform(0.05, 0.4) * unit)
            judge("open")
        marg = [c for c in cs if gen.is_margined(c)]
        flat = [c for c in marg if rng.random() < 0.5][: len(marg) - 1]
        for c in flat:
            trade(c, -led.pos[c])
            judge("close")
        for i in range(rng.randint(6, 25)):
            op = rng.choice(["quote", "quote", "val", "mark", "weights", "discontinue", "zero-dip", "trade", "gap"])
            if op == "quote":
                c = rng.choice(live)
                quote(c)
            elif op == "val":
                pass
            elif op == "mark":
                b.marking_to_market(rng.choice([None, None] + live))
            elif op == "weights":
                if led.nlv() > 0:
                    b.holdings_weights()
            elif op == "discontinue":
                cand = [c for c in live if gen.is_margined(c) and led.pos.get(c, 0.0) == 0.0]
                if not cand or len(live) < 2:
                    continue
                c = rng.choice(cand)
                ex.process_EventContractDiscontinued(EventContractDiscontinued(t, c))
                led.drop_quote(c)
                live.remove(c)
                dead.add(c)
                ctx.cat("flat-margined-contract-discontinued")
            elif op == "gap":
                # a gap in the feed of a HELD margined contract (NaN quote): valuations and markings attempted during
                # the gap fail loudly (C13) - the caller catches them - and once valid quotes are back everything is
                # as if the gap had never been looked at
                cand = [c for c in live if gen.is_margined(c) and led.pos.get(c, 0.0) != 0.0]
                if not cand:
                    continue
                c = rng.choice(cand)
                nan = float("nan")
                ex.process_EventNBBO(EventNBBO(t, c, nan, nan))
                for attempt in rng.sample(["nlv", "mark-all", "weights", "context", "mark-one"], rng.randint(1, 3)):
                    try:
                        {"nlv": b.net_liquidation_value, "mark-all": b.marking_to_market, "weights": b.holdings_weights,
                         "context": b.context, "mark-one": lambda: b.marking_to_market(c)}[attempt]()
                    except Exception:
                        pass
                quote(c)
                ctx.cat("valuation-attempted-during-a-feed-gap")
            elif op == "zero-dip":
                cand = [c for c in live if gen.is_margined(c) and led.pos.get(c, 0.0) != 0.0]
                if not cand or led.nlv() <= 0:
                    continue
                c = rng.choice(cand)
                p = led.pos[c]
                # the liquidation side is exactly zero: bid 0 for a long, bid = ask = 0 for a short
                quote(c, 0.0, (mid[c] * 0.01 if p > 0 and rng.random() < 0.5 else 0.0))
                judge("zero-quote")
                if rng.random() < 0.5:
                    b.marking_to_market(None)
                quote(c)            # ... and away from zero again
                ctx.cat("liquidation-quote-exactly-zero")
            else:
                cand = [c for c in live if led.nlv() > 0]
                if not cand:
                    continue
                c = rng.choice(cand)
                p = led.pos.get(c, 0.0)
                unit = max(led.nlv(), 1.0) / (mid[c] * c.multiplier)
                dq = -p if (p != 0 and rng.random() < 0.3) else rng.choice([-1, 1]) * rng.uniform(0.05, 0.3) * unit
                trade(c, _avoid_dust(p, dq))
            judge(op)
    ctx.nontrivial = bool(dead) or ctx.cats.get("liquidation-quote-exactly-zero", 0) > 0
    ctx.cat("scenario:special-quotes")
    ctx.sample = {"scenario": "special-quotes", "contracts": [gen.describe_contract(c) for c in cs],
                  "discontinued": [c.symbol for c in dead]}
