"""CLI: ./check <Cnn> quick|thorough | --replay <file> | selftest

Exit codes: 0 held on everything explored (known findings are printed as
KNOWN-FINDING lines), 1 violation (VIOLATION line with replay path),
2 inconclusive (a deciding monitor was never reached / a shard died).
"""
import collections
import importlib
import json
import os
import shutil
import subprocess
import sys
import time
import faulthandler

from vf import ROOT, REPO, hooks_enabled
from vf import core, monitor

NSHARDS = int(os.environ.get("VERIF_SHARDS", "16"))
MAX_REPORTED = 5


def load(prop):
    return importlib.import_module("vf.props." + prop.lower())


def counts(mod, tier):
    n = mod.N[tier] if hasattr(mod, "N") else 0
    s = mod.sys_count(tier) if hasattr(mod, "sys_count") else 0
    scale = float(os.environ.get("VERIF_SCALE", "1"))
    return int(n * scale), s


# --------------------------------------------------------------------------- #
def say(*a, **k):
    """print that survives a reader who closed the pipe (`| head`): the exit code must still be delivered."""
    try:
        print(*a, **k)
        sys.stdout.flush()
    except BrokenPipeError:
        try:
            sys.stdout = open(os.devnull, "w")
        except OSError:
            pass


def run_shard(prop, tier, seed, shard, nshards, time_budget):
    """Runs the cases i with i % nshards == shard.  Systematic cases first
    (never cut by the time budget), then random cases until the count or the
    time budget is exhausted."""
    mod = load(prop)
    monitor.install()
    monitor.start_reach()
    if hasattr(mod, "setup"):
        mod.setup(tier)
    n_rand, n_sys = counts(mod, tier)
    t0 = time.time()
    out = dict(
        evaluations=0, n_sys=0, n_rand=0, cats=collections.Counter(),
        evals=collections.Counter(), violations=[], findings=[],
        nontrivial=set(), samples=[], inconclusive=[], budget_exhausted=False,
        n_violating_cases=0,
    )

    def absorb(ctx):
        out["evaluations"] += 1
        out["cats"].update(ctx.cats)
        out["evals"].update(ctx.evals)
        if ctx.nontrivial:
            out["nontrivial"].add(core.digest(ctx.sample if ctx.sample is not None
                                              else [ctx.kind, ctx.index]))
        if ctx.sample is not None and len(out["samples"]) < 3 and (ctx.nontrivial or ctx.kind == "sys"):
            out["samples"].append({"kind": ctx.kind, "index": ctx.index, "case": core.jsonable(ctx.sample)})
        if "inconclusive" in ctx.notes:
            out["inconclusive"].append([ctx.kind, ctx.index, ctx.notes["inconclusive"]])
        for f in ctx.findings:
            if len(out["findings"]) < 200:
                out["findings"].append(dict(f, kind=ctx.kind, index=ctx.index))
        if ctx.violations:
            out["n_violating_cases"] += 1
            if len(out["violations"]) < 20:
                out["violations"].append(dict(
                    kind=ctx.kind, index=ctx.index, clauses=ctx.violations[:5],
                    sample=core.jsonable(ctx.sample)))

    for j in range(shard, n_sys, nshards):
        absorb(core.run_one(mod, prop, seed, "sys", j, tier))
        out["n_sys"] += 1
    for i in range(shard, n_rand, nshards):
        if time.time() - t0 > time_budget:
            out["budget_exhausted"] = True
            break
        absorb(core.run_one(mod, prop, seed, "rand", i, tier))
        out["n_rand"] += 1
    out["nontrivial"] = sorted(out["nontrivial"])
    out["hits"] = dict(monitor.HITS)
    out["reached"] = sorted(monitor.REACHED)
    out["cats"] = dict(out["cats"])
    out["evals"] = dict(out["evals"])
    return out


def merge(parts):
    agg = dict(
        evaluations=0, n_sys=0, n_rand=0, cats=collections.Counter(),
        evals=collections.Counter(), violations=[], findings=[], nontrivial=set(),
        samples=[], inconclusive=[], budget_exhausted=False, hits=collections.Counter(),
        reached=set(), n_violating_cases=0,
    )
    for p in parts:
        for k in ("evaluations", "n_sys", "n_rand", "n_violating_cases"):
            agg[k] += p[k]
        agg["cats"].update(p["cats"])
        agg["evals"].update(p["evals"])
        agg["hits"].update(p["hits"])
        agg["violations"].extend(p["violations"])
        agg["findings"].extend(p["findings"])
        agg["nontrivial"].update(p["nontrivial"])
        agg["samples"].extend(p["samples"])
        agg["inconclusive"].extend(p["inconclusive"])
        agg["reached"].update(p["reached"])
        agg["budget_exhausted"] = agg["budget_exhausted"] or p["budget_exhausted"]
    return agg


# --------------------------------------------------------------------------- #
def main_check(prop, tier):
    t0 = time.time()
    seed = int(os.environ.get("VERIF_SEED", "0"))
    mod = load(prop)
    if not hooks_enabled():
        say("INCONCLUSIVE property={} reason=guard TRADINGENV_VERIF is off".format(prop))
        return 2
    budget = mod.TIME[tier] if hasattr(mod, "TIME") else {"quick": 45, "thorough": 480}[tier]
    budget = float(os.environ.get("VERIF_TIME", budget))
    died = []
    if tier == "quick" or NSHARDS <= 1:
        faulthandler.dump_traceback_later(budget * 6 + 600, exit=True)
        parts = [run_shard(prop, tier, seed, 0, 1, budget)]
        faulthandler.cancel_dump_traceback_later()
    else:
        work = os.path.join(ROOT, ".work", "{}-{}".format(prop, os.getpid()))
        os.makedirs(work, exist_ok=True)
        procs = []
        for k in range(NSHARDS):
            outp = os.path.join(work, "shard{}.json".format(k))
            cmd = [sys.executable, "-B", "-m", "vf.run", "--shard", prop, tier,
                   str(seed), str(k), str(NSHARDS), str(budget), outp]
            procs.append((k, outp, subprocess.Popen(cmd, cwd=ROOT, stdout=subprocess.DEVNULL,
                                                    stderr=open(outp + ".err", "w"))))
        parts = []
        deadline = time.time() + budget * 4 + 900
        for k, outp, p in procs:
            try:
                p.wait(timeout=max(1, deadline - time.time()))
            except subprocess.TimeoutExpired:
                p.kill()
                died.append("shard {} hit the wall-clock watchdog".format(k))
                continue
            if p.returncode != 0 or not os.path.exists(outp):
                err = open(outp + ".err").read()[-500:]
                died.append("shard {} exited {}: {}".format(k, p.returncode, err))
                continue
            parts.append(json.load(open(outp)))
        shutil.rmtree(work, ignore_errors=True)
        try:
            os.rmdir(os.path.join(ROOT, ".work"))
        except OSError:
            pass
    agg = merge(parts)
    return finish(mod, prop, tier, seed, agg, died, time.time() - t0)


def finish(mod, prop, tier, seed, agg, died, wall):
    known = core.load_known()
    # ---- classify findings ------------------------------------------------ #
    seen_known = collections.OrderedDict()
    unlisted = []
    for f in agg["findings"]:
        if (prop, f["key"]) in known:
            seen_known.setdefault(f["key"], f)
        else:
            unlisted.append(f)
    viol_cases = list(agg["violations"])
    for f in unlisted:
        viol_cases.append(dict(kind=f["kind"], index=f["index"], sample=None, clauses=[
            {"clause": "unlisted-finding:" + f["key"], "detail": f["detail"]}]))
    # ---- inconclusive reasons -------------------------------------------- #
    reasons = list(died)
    n_rand, n_sys = counts(mod, tier)
    min_cases = getattr(mod, "MIN_CASES", {}).get(tier, max(1, int(0.05 * n_rand)))
    if agg["n_rand"] < min(min_cases, n_rand):
        reasons.append("only {} of {} random cases ran within the time budget".format(agg["n_rand"], n_rand))
    if agg["n_sys"] < n_sys and not died:
        reasons.append("only {} of {} systematic cases ran".format(agg["n_sys"], n_sys))
    for clause in getattr(mod, "REQUIRED", []):
        if agg["evals"].get(clause, 0) == 0:
            reasons.append("oracle clause '{}' was never evaluated".format(clause))
    for cat in getattr(mod, "REQUIRED_CATS", []):
        if agg["cats"].get(cat, 0) == 0:
            reasons.append("category '{}' was never reached".format(cat))
    for h in getattr(mod, "REQUIRED_HITS", []):
        if agg["hits"].get(h, 0) == 0:
            reasons.append("hook '{}' was never hit (wrapper bypassed?)".format(h))
    for inc in agg["inconclusive"][:3]:
        reasons.append("case {}#{}: {}".format(*inc))
    # ---- evidence --------------------------------------------------------- #
    exhaustive = bool(getattr(mod, "exhaustive", lambda t: False)(tier)) and agg["n_sys"] == n_sys
    samples = agg["samples"][:3]
    if not samples:
        samples = [{"note": "no sample recorded"}]
    coverage = {
        "evaluations": agg["evaluations"],
        "distinct_nontrivial": len(agg["nontrivial"]),
        "rule": mod.RULE + " Workload classes added during the build phase (DESIGN.md 10.1: repeated episodes, shared objects, refused calls, copies, other entry points, unusual input types ...) are generated by the same cases and counted by name under coverage.categories; the classes a seeded change once needed are required categories (a run that misses one is INCONCLUSIVE).",
        "samples": samples,
        "systematic_cases": agg["n_sys"],
        "random_cases": agg["n_rand"],
        "random_cases_planned": n_rand,
        "time_budget_exhausted": agg["budget_exhausted"],
        "categories": dict(sorted(agg["cats"].items())),
        "oracle_evaluations": dict(sorted(agg["evals"].items())),
        "hook_hits": dict(sorted(agg["hits"].items())),
        "functions_reached": sorted(agg["reached"]),
        "known_findings_seen": sorted(seen_known),
        "violating_cases": agg["n_violating_cases"] + len(unlisted),
        "inconclusive_reasons": reasons,
        "repo": REPO,
    }
    if exhaustive:
        coverage["exhaustive"] = True
    ev = {
        "property_id": prop,
        "tier": tier,
        "seed": seed,
        "level": mod.LEVEL,
        "coverage": coverage,
        "assumptions": list(getattr(mod, "ASSUMPTIONS", [])),
        "wall_s": round(wall, 2),
        "violations": len(viol_cases),
    }
    outroot = os.environ.get("VERIF_OUT", ROOT)
    os.makedirs(os.path.join(outroot, "evidence"), exist_ok=True)
    with open(os.path.join(outroot, "evidence", prop + ".json"), "w") as f:
        json.dump(ev, f, indent=1, sort_keys=True)
        f.write("\n")
    # ---- verdict ---------------------------------------------------------- #
    for key, f in seen_known.items():
        say("KNOWN-FINDING: property={} key={} {}".format(prop, key, known[(prop, key)]))
    if viol_cases:
        rdir = os.path.join(outroot, "replays", prop)
        os.makedirs(rdir, exist_ok=True)
        for v in viol_cases[:MAX_REPORTED]:
            path = os.path.join(rdir, "{}-s{}-{}{}.json".format(tier, seed, v["kind"], v["index"]))
            with open(path, "w") as f:
                json.dump(dict(property=prop, tier=tier, seed=seed, kind=v["kind"], index=v["index"],
                               clauses=v["clauses"], sample=v["sample"]), f, indent=1)
            say("VIOLATION property={} replay={}".format(prop, path))
            for c in v["clauses"][:2]:
                say("  clause={} detail={}".format(c["clause"], json.dumps(c["detail"])[-700:]))
        say("{}: {} violating case(s) out of {} ({} s)".format(
            prop, agg["n_violating_cases"] + len(unlisted), agg["evaluations"], round(wall, 1)))
        return 1
    if reasons:
        for r in reasons:
            say("INCONCLUSIVE property={} reason={}".format(prop, r))
        return 2
    say("{} {}: held on {} executions ({} systematic, {} random; {} distinct non-trivial; "
          "{} oracle evaluations) in {} s".format(
              prop, tier, agg["evaluations"], agg["n_sys"], agg["n_rand"], len(agg["nontrivial"]),
              sum(agg["evals"].values()), round(wall, 1)))
    return 0


def main_replay(prop, path):
    r = json.load(open(path))
    mod = load(prop)
    monitor.install()
    if hasattr(mod, "setup"):
        mod.setup(r["tier"])
    ctx = core.run_one(mod, prop, r["seed"], r["kind"], r["index"], r["tier"])
    known = core.load_known()
    bad = list(ctx.violations)
    for f in ctx.findings:
        if (prop, f["key"]) in known:
            say("KNOWN-FINDING: property={} key={} {}".format(prop, f["key"], known[(prop, f["key"])]))
        else:
            bad.append({"clause": "unlisted-finding:" + f["key"], "detail": f["detail"]})
    say(json.dumps(dict(sample=core.jsonable(ctx.sample), violations=bad), indent=1)[:20000])
    if bad:
        say("VIOLATION property={} replay={}".format(prop, path))
        return 1
    say("replay: no violation")
    return 0


def main_selftest():
    """Framework self-test used as MANIFEST.setup_cmd: the repository imports,
    hooks install, a trivial monitored execution is observed."""
    import tradingenv  # noqa
    from tradingenv.broker.broker import Broker
    ok = monitor.install()
    assert ok, "guard off"
    assert getattr(Broker.transact, "_vf_wrapper", False)
    os.makedirs(os.path.join(ROOT, "evidence"), exist_ok=True)
    say("selftest ok: tradingenv from", os.path.dirname(tradingenv.__file__))
    return 0


def main(argv):
    if not argv:
        say(__doc__)
        return 2
    if argv[0] == "selftest":
        return main_selftest()
    if argv[0] == "--shard":
        prop, tier, seed, k, n, budget, outp = argv[1:8]
        faulthandler.dump_traceback_later(float(budget) * 4 + 600, exit=True)
        part = run_shard(prop, tier, int(seed), int(k), int(n), float(budget))
        with open(outp + ".tmp", "w") as f:
            json.dump(part, f)
        os.replace(outp + ".tmp", outp)
        return 0
    prop = argv[0].upper()
    if len(argv) >= 3 and argv[1] == "--replay":
        return main_replay(prop, argv[2])
    tier = argv[1] if len(argv) > 1 else os.environ.get("VERIF_TIER", "quick")
    return main_check(prop, tier)


if __name__ == "__main__":
    sys.exit(main(sys.argv[1:]))
