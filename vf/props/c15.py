"""C15 - folds, episode length, walk-forward (engine EP + Transmitter)."""
import bisect
import collections
from datetime import datetime, timedelta

import gymnasium
import numpy as np

from tradingenv.env import TradingEnv
from tradingenv.features import Feature
from tradingenv.contracts import ETF
from tradingenv.spaces import BoxPortfolio
from tradingenv.transmitter import Transmitter
from tradingenv.events import EventNBBO

from vf import ep

PROP = "C15"
LEVEL = "exploration"
ENGINE = "EP"
N = {"quick": 350, "thorough": 16000}
TIME = {"quick": 300, "thorough": 480}
DRAWS = 300
RULE = ("Random grids of 2-12 daily/irregular timesteps of which ~85% carry an event, two possibly overlapping folds, "
        "episode length n = 1 .. (event-bearing steps in fold)+1 (every value), sampling_span none or 3. Per configuration 300 "
        "seeded resets when 2-6 starts are valid under uniform sampling (25 otherwise, 2 when nothing fits): the episode must visit a contiguous run of the fold's event-bearing timesteps in order, "
        "consist of exactly n step() calls until done, start only at positions where n+1 timesteps fit and - under uniform sampling "
        "with <= 6 valid starts - every valid start must be drawn (a given start is missed with probability <= (5/6)^300 ~ 2e-24); a "
        "request that cannot fit must be refused. Whole-fold episodes visit exactly the fold's steps. Walk-forward folds: test windows "
        "disjoint, ordered, of the requested size, starting right after their own training window, inside the grid; sliding vs "
        "expanding. Non-trivial = fold strictly inside the grid with >= 2 valid starts or a refusal.")
ASSUMPTIONS = ["the episode_length argument of reset() ('number of states') is not judged; the configured length is",
               "sampling_span cases only check membership, not reachability"]
REQUIRED_CATS = ["sampling-span-1", "falsy-fold-name", "sub-second-grid", "episode-length-with-fit-transformers", "decision-refused-then-resubmitted", "timesteps-re-added-after-environment-built", "latent-only-timestep", "events-added-then-rebuilt", "steps_delay:1", "steps_delay:2", "one-off-length-then-configured"]
REQUIRED = ["C15:decisions-exact", "C15:start-valid", "C15:visits-contiguous", "C15:every-start-reachable", "C15:refused-when-none-fits",
            "C15:whole-fold", "C15:walk-forward"]
TECHNIQUE = "runtime monitoring: visited timesteps (observer clock per call) compared with the fold's event-bearing steps; seeded reachability sweep"
LEVEL_TEXT = ("Exploration. Every episode length from 1 to fold size + 1 is exercised on each generated grid; the sequence of times "
              "visited by real episodes is compared with the expected run of event-bearing steps; 300 seeded resets decide reachability "
              "of every valid start.")
LEVEL_NOTE = ("Trusted: numpy's legacy global RNG is uniform. Mutation audit: slice off by one, fold bound '<', the '+1' dropped, "
              "walk-forward step != test size are caught.")


class LogF(Feature):
    """A feature (usable next to library features in a State) that records what the recording observer Rec records
    for this check: market events with their time, Reset and Done."""

    def __init__(self, sink):
        self.sink = sink
        from sklearn.preprocessing import StandardScaler
        super().__init__(space=gymnasium.spaces.Box(-np.inf, np.inf, (1, 1), float), name="LogF",
                         transformer=StandardScaler(with_mean=False, with_std=False))

    def process_EventNBBO(self, event):
        self.sink.log.append(("M", None, event.time))

    def process_EventReset(self, event):
        self.sink.log.append(("Reset", None, event.time))

    def process_EventDone(self, event):
        self.sink.log.append(("Done", None, event.time))

    def parse(self):
        return np.array([[0.0]])


def visited_run(env, sink, fold, cap, grid=None, refuse=None):
    del sink.log[:]
    env.reset(fold)
    seq = []

    def slot_of_last():
        """The timestep the environment stands at = the grid point at or after the last delivered event."""
        ms = [x for x in sink.log if x[0] == "M"]
        if not ms:
            return None
        t = ms[-1][2]
        if grid is not None:
            k = bisect.bisect_left(grid, t)
            return grid[k] if k < len(grid) else t
        return t

    seq.append(slot_of_last())
    done = ep.done_at_reset(env, sink)
    k = 0
    while not done:
        if k > cap:
            return seq, k, True
        if refuse is not None and k == refuse:
            # a decision the environment refuses (out of bounds), caught by the caller, who then decides properly:
            # the refused call is not a decision and does not move the episode
            try:
                env.step(np.array([9.]))
            except ValueError:
                pass
            refuse = None
        o, r, done, info = env.step(np.array([0.]))
        k += 1
        seq.append(slot_of_last())
    return seq, k, False


def case(ctx, i, tier):
    rng = ctx.rng
    n = rng.randint(2, 12)
    t0 = datetime(2020, 1, 1)
    if rng.random() < 0.3:
        grid = [t0]
        for _ in range(n - 1):
            grid.append(grid[-1] + timedelta(seconds=rng.choice([3600, 86400, 3 * 86400])))
    else:
        grid = [t0 + timedelta(days=k) for k in range(n)]
    subsecond = rng.random() < 0.2
    if subsecond:
        # a tick grid finer than a second: fold boundaries share their calendar second with timesteps on the other side
        grid = [t0 + timedelta(milliseconds=250 * k) for k in range(n)]
        ctx.cat("sub-second-grid")
    bearing = [g for g in grid if rng.random() < 0.85] or [grid[0]]
    evs = [EventNBBO(g, ETF("A"), 10, 10) for g in bearing]
    L = rng.choice([0, 0, 0, 5]) if not subsecond else 0
    if L:
        # with a latency, a timestep may bear nothing but events stamped within the latency after the PREVIOUS
        # grid point (intraday ticks): it is event-bearing all the same and keeps its place in the order
        evs = []
        for g in bearing:
            k = grid.index(g)
            if k == 0:
                evs.append(EventNBBO(g, ETF("A"), 10, 10))
                continue
            evs.append(EventNBBO(grid[k - 1] + timedelta(seconds=2), ETF("A"), 10, 10))
            if rng.random() < 0.5:
                evs.append(EventNBBO(g, ETF("A"), 10, 10))
            else:
                ctx.cat("latent-only-timestep")
        ctx.cat("latency>0")
    i0 = rng.randint(0, n - 1)
    i1 = rng.randint(i0, n - 1)
    j0 = rng.randint(0, n - 1)
    j1 = rng.randint(j0, n - 1)
    # fold names are the user's own dictionary keys: any hashable, e.g. the numbers of an enumerate()d walk-forward
    # series (whose first is 0) or an empty label
    n1, n2 = rng.choice([("f1", "f2"), ("f1", "f2"), (0, 1), (1, 0), ("", "x"), (0.0, "training-set")])
    if not n1 or not n2:
        ctx.cat("falsy-fold-name")
    folds = {n1: [grid[i0], grid[i1]], n2: [grid[j0], grid[j1]]}
    fold = rng.choice([n1, n2])
    s, e = folds[fold]
    steps = [g for g in bearing if s <= g <= e]
    span = rng.choice([None, None, 3, 1, 2])        # (1: always the latest window that fits)
    if span == 1:
        ctx.cat("sampling-span-1")
    delay = rng.choice([0, 0, 1, 2])      # an execution delay must not change the episode length
    ctx.cat("steps_delay:%d" % delay)
    refusals = 0
    max_valid = 0
    ctx.sample = {"grid": grid, "event_bearing": bearing, "folds": folds, "fold": fold, "sampling_span": span}
    fitted = rng.random() < 0.25
    if fitted:
        ctx.cat("episode-length-with-fit-transformers")
    for nlen in range(1, len(steps) + 2):
        tr = Transmitter(grid, folds)
        tr.add_events(evs)
        sink = ep.Sink()
        kwfit = {}
        st = ep.Rec(sink)
        if fitted:
            # feature transformers fitted at construction (a warm-up backtest over the whole fold runs inside the
            # constructor): the configured episode length is the same afterwards
            from tradingenv.library import FeaturePrices
            st = [FeaturePrices([ETF("A")]), LogF(sink)]
            kwfit = dict(fit_transformers={"fold": fold})
        try:
            env = TradingEnv(action_space=BoxPortfolio([ETF("A")]), transmitter=tr, state=st,
                             episode_length=nlen, sampling_span=span, steps_delay=delay, latency=L, **kwfit)
        except Exception as ex_:
            if fitted:
                # (the warm-up backtest itself can be refused when nothing fits: same verdict as a refused reset)
                ctx.cat("fit-refused-at-construction")
                continue
            raise
        sink.env = env
        if rng.random() < 0.3:
            # the calendar is 'refreshed' after the environment was built: timesteps the transmitter already knows
            # are handed over again, in any order (the raw list becomes unsorted and duplicated) - episodes do not care
            tr.add_timesteps(rng.sample(grid, rng.randint(1, len(grid))))
            ctx.cat("timesteps-re-added-after-environment-built")
        starts = collections.Counter()
        valid = steps[:len(steps) - nlen] if len(steps) - nlen > 0 else []
        max_valid = max(max_valid, len(valid))
        reach = bool(valid) and span is None and 2 <= len(valid) <= 6
        oneoff = {rng.randint(1, 3)} if rng.random() < 0.4 else ()
        for rep in range(DRAWS if reach else 25 if valid else 2):
            np.random.seed((ctx.np_seed + 7919 * rep + nlen) % (2 ** 32))
            if rep in oneoff:
                # a one-off episode of another length (the episode_length argument of reset): not judged itself,
                # but it must not change the configured length of the episodes that follow
                try:
                    env.reset(fold, episode_length=rng.randint(1, max(1, len(steps))))
                    ctx.cat("one-off-length-then-configured")
                except Exception:
                    pass
            try:
                refuse_k = rng.randint(0, nlen - 1) if (delay == 0 and rng.random() < 0.15) else None
                if refuse_k is not None:
                    ctx.cat("decision-refused-then-resubmitted")
                seq, k, over = visited_run(env, sink, fold, cap=len(grid) + 2, grid=grid, refuse=refuse_k)
            except Exception as ex:
                if valid:
                    ctx.violation("C15:accepted-when-fits", nlen=nlen, steps=len(steps), error=repr(ex)[:200])
                    return
                ctx.check("C15:refused-when-none-fits", True)
                refusals += 1
                break
            if not valid:
                ctx.violation("C15:refused-when-none-fits", nlen=nlen, steps=len(steps), visited=seq)
                return
            if over:
                ctx.violation("C15:decisions-exact", nlen=nlen, decisions=">%d" % k)
                return
            ok = ctx.check("C15:decisions-exact", k == nlen, nlen=nlen, decisions=k)
            ok &= ctx.check("C15:start-valid", seq[0] in valid, start=seq[0], valid=valid)
            if seq[0] in steps:
                a = steps.index(seq[0])
                ok &= ctx.check("C15:visits-contiguous", seq == steps[a:a + nlen + 1], visited=seq, want=steps[a:a + nlen + 1])
            ok &= ctx.check("C15:inside-fold", all(s <= x <= e for x in seq), visited=seq, fold=[s, e])
            if not ok:
                return
            starts[seq[0]] += 1
        if valid and span is None and len(valid) <= 6:
            ctx.check("C15:every-start-reachable", set(starts) == set(valid), nlen=nlen, drawn=sorted(starts), valid=valid)
        ctx.cat("config")
    # whole fold, no configured length
    tr = Transmitter(grid, folds)
    tr.add_events(evs)
    sink = ep.Sink()
    env = TradingEnv(action_space=BoxPortfolio([ETF("A")]), transmitter=tr, state=ep.Rec(sink), latency=L)
    sink.env = env
    if steps:
        seq, k, over = visited_run(env, sink, fold, cap=len(grid) + 2, grid=grid)
        ctx.check("C15:whole-fold", not over and seq == steps, visited=seq, want=steps)
    else:
        try:
            env.reset(fold)
            ctx.violation("C15:refused-when-none-fits", nlen=None, steps=0)
        except Exception:
            ctx.check("C15:refused-when-none-fits", True)
    # the same transmitter after MORE events were added (more timesteps become event-bearing) and a
    # new environment was built on it: episodes follow the new set of event-bearing timesteps
    empty = [g for g in grid if g not in bearing]
    if steps and empty:
        extra = [g for g in empty if rng.random() < 0.7] or empty[:1]
        tr.add_events([EventNBBO(g, ETF("A"), 11, 11) for g in extra] +
                      [EventNBBO(grid[grid.index(g) - 1] + timedelta(seconds=2), ETF("A"), 11, 11) for g in extra if L and grid.index(g) > 0])
        sink = ep.Sink()
        env = TradingEnv(action_space=BoxPortfolio([ETF("A")]), transmitter=tr, state=ep.Rec(sink), latency=L)
        sink.env = env
        bearing2 = sorted(set(bearing) | set(extra))
        steps2 = [g for g in bearing2 if s <= g <= e]
        if steps2:
            seq, k, over = visited_run(env, sink, fold, cap=len(grid) + 2, grid=grid)
            ctx.check("C15:whole-fold", not over and seq == steps2, visited=seq, want=steps2, after="events added + environment rebuilt")
            ctx.cat("events-added-then-rebuilt")
    # walk forward
    ts = rng.randint(1, 4)
    trn = rng.randint(1, 5)
    if ts + trn <= n:
        for sliding in (True, False):
            f = Transmitter(grid).walk_forward(trn, ts, sliding)
            m = len(f.train_start)
            ok = m > 0
            for q in range(m):
                ok &= f.test_start[q] == f.train_end[q] + 1
                ok &= f.test_end[q] - f.test_start[q] + 1 == ts
                ok &= 0 <= f.train_start[q] <= f.train_end[q] and f.test_end[q] <= n - 1
                if q:
                    ok &= f.test_start[q] == f.test_end[q - 1] + 1
                ok &= (f.train_end[q] - f.train_start[q] + 1 == trn) if sliding else (f.train_start[q] == 0)
            ft = f.as_time()
            ok &= all(ft.test_start[q] == grid[f.test_start[q]] and ft.test_end[q] == grid[f.test_end[q]] for q in range(m))
            ctx.check("C15:walk-forward", bool(ok), n=n, train=trn, test=ts, sliding=sliding,
                      folds=[list(map(int, x)) for x in (f.train_start, f.train_end, f.test_start, f.test_end)])
    ctx.nontrivial = (i0 > 0 or i1 < n - 1) and (max_valid >= 2 or refusals > 0)
