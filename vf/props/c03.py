"""C03 - rebalancing reaches the requested target allocation (engine BL)."""
import math
from datetime import datetime, timedelta

from tradingenv.contracts import ETF, ES, ZN, NK, Cash, FutureChain, AbstractContract
from tradingenv.broker.broker import Broker
from tradingenv.broker.fees import BrokerFees
from tradingenv.broker.rebalancing import Rebalancing
from tradingenv.events import EventNBBO

from vf import bl, gen
from vf.ledger import Ledger

PROP = "C03"
LEVEL = "exploration"
ENGINE = "BL"
N = {"quick": 3000, "thorough": 200000}
TIME = {"quick": 300, "thorough": 420}
RULE = ("Two workloads at the Broker.rebalance boundary. (a) rebalances inside random broker histories (C01 generator: prior "
        "holdings long/short/leveraged/mixed spot+futures, spreads, fees, weights or contract counts, targets negative, >1, zero, "
        "contracts dropped from the target): every targeted contract ends at position x multiplier x execution-side quote == "
        "w x NLV-before-trading (ledger), held-but-untargeted contracts end at 0, contract-count targets are reached to a few ulp. "
        "(b) frictionless markets (no spread, no fees) after 0-3 earlier rebalances and price moves: reported weights == w, NLV "
        "unchanged, an immediate second rebalance trades nothing of economic size. Non-trivial = the rebalance starts from "
        "non-empty holdings and targets a short or leveraged (>1) weight or mixes spot and margined contracts.")
ASSUMPTIONS = ["no trade threshold (C12)", "epsilon snap of |position| < 1e-7 is documented behaviour (DESIGN 4.2-a)",
               "contract-count targets are reached to 8 ulp of max(1,|target|,|prior|) (DESIGN 4.2-b)"]
REQUIRED = ["C03:same-request-other-account", "C03:chain-others-flat", "C03:target-weight-reached", "C03:target-contracts-reached", "C03:untargeted-closed",
            "C03:frictionless-weights", "C03:frictionless-nlv-unchanged", "C03:second-rebalance-trades-nothing",
            "C03:frictionless-contracts-reached", "C03:restored-account"]
REQUIRED_CATS = ["user-composite-target-through-a-switch", "requests-without-time", "same-request-two-accounts", "account-restored-in-another-interpreter", "chain-target-with-chain-addressed-series-through-a-roll"]
REQUIRED_HITS = ["Broker.rebalance", "Rebalancing.make_trades"]
TECHNIQUE = "runtime monitoring: post-conditions at the Broker.rebalance boundary against an independent ledger"
LEVEL_TEXT = ("Exploration. The real Broker.rebalance is driven from thousands of generated prior holdings and targets; after each "
              "call the position reached, the closing of untargeted holdings and - in frictionless markets - reported weights, "
              "unchanged NLV and an idempotent second rebalance are asserted. Held on the rebalances observed.")
LEVEL_NOTE = ("Trusted: harness ledger for the pre-trade NLV; tolerances 1e-9 relative plus the documented 1e-7-contract snap. "
              "Mutation audit: mid instead of execution side, weights applied to post-cost NLV, untargeted holdings kept, and the "
              "two reverted accounting fixes are caught.")


def frictionless(ctx):
    rng = ctx.rng
    pool = [ETF("A"), gen.SpotMult("L10", 10.0), ES(2019, 6), ZN(2019, 9), ETF("C"), NK(2019, 12),
            gen.UserFuture("F1", 5, 0.3), gen.UserSpot("U3", 3.0), gen.AssetFuture("AF", 20, 0.2)]
    rng.shuffle(pool)
    cs = pool[: rng.randint(1, 4)]
    fees = BrokerFees()
    t = datetime(2019, 1, 1)
    AbstractContract.now = t
    chain = None
    if rng.random() < 0.3:
        # a futures chain (front month or a later month) as rebalancing target: the position
        # must land in the contract the chain designates at the current time
        chain_month = rng.choice([0, 1, 2])
        chain = FutureChain(rng.choice([ES, NK]), "2019-01", "2020-12", month=chain_month)
        cs = [c for c in cs if not (isinstance(c, (ES, NK)))] + [chain]
        ctx.cat("chain-target:month%d" % chain_month)
    ex = gen.new_exchange(t, fees)
    mid = {}
    for c in cs:
        if c is chain:
            for f in chain.contracts:
                mid[f] = rng.choice([20.0, 100.0, 2500.0]) * rng.uniform(0.9, 1.1)
                ex.process_EventNBBO(EventNBBO(t, f, mid[f], mid[f]))
            continue
        mid[c] = rng.choice([20.0, 100.0, 2500.0]) * rng.uniform(0.9, 1.1)
        ex.process_EventNBBO(EventNBBO(t, c, mid[c], mid[c]))

    def designated(c):
        """The contract a target for `c` must end up in."""
        if c is chain:
            cand = sorted([f for f in chain.contracts if f.last_trading_date > AbstractContract.now],
                          key=lambda f: f.last_trading_date)
            return cand[chain_month]
        return c
    dep = rng.choice([1e5, 1e7])
    b = Broker(ex, deposit=dep)
    nhist = rng.randint(0, 3)
    for _ in range(nhist):
        t += timedelta(days=1)
        AbstractContract.now = t
        b.rebalance(Rebalancing(cs, [rng.uniform(-1, 1.5) for _ in cs], time=t))
        for c in list(mid):
            mid[c] *= math.exp(rng.gauss(0, 0.02))
            ex.process_EventNBBO(EventNBBO(t, c, mid[c], mid[c]))
    meas = rng.choice(["weight", "nr-contracts"])
    n0 = b.net_liquidation_value()
    if meas == "weight":
        tgt = [rng.choice([0, rng.uniform(-1.5, 2)]) for _ in cs]
    else:
        tgt = [rng.choice([0, float(rng.randint(-50, 50)), rng.uniform(-30, 30)]) for _ in cs]
    keys, vals = list(cs), list(tgt)
    if rng.random() < 0.3 and len(cs) > 1:
        drop = rng.randrange(len(cs))
        keys = [c for j, c in enumerate(cs) if j != drop]
        vals = [x for j, x in enumerate(tgt) if j != drop]
        tgt[drop] = 0
    t += timedelta(days=1)
    AbstractContract.now = t
    r = Rebalancing(keys, vals, measure=meas, time=t)
    b.rebalance(r)
    n1 = b.net_liquidation_value()
    gross = dep + sum(abs(q * mid[c] * c.multiplier) for c, q in b.holdings_quantity.items() if c in mid)
    ctx.check("C03:frictionless-nlv-unchanged", abs(n1 - n0) <= 1e-9 * gross, before=n0, after=n1)
    h = b.holdings_quantity
    hprev = r.context_pre.nr_contracts
    if meas == "weight":
        w = b.holdings_weights()
        for c0, x in zip(cs, tgt):
            c = designated(c0)
            snap = 1.01e-7 * c.multiplier * mid[c] / n0
            ctx.check("C03:frictionless-weights", abs(w.get(c, 0.0) - x) <= 1e-9 * max(1.0, gross / n0) + snap,
                      contract=c.symbol, got=w.get(c, 0.0), want=x)
        if chain is not None:
            d_ = designated(chain)
            ctx.check("C03:chain-others-flat", all(h.get(f, 0.0) == 0.0 for f in chain.contracts if f is not d_),
                      designated=d_.symbol, held={f.symbol: h.get(f, 0.0) for f in chain.contracts if h.get(f, 0.0)})
    else:
        for c0, x in zip(cs, tgt):
            c = designated(c0)
            ctx.check("C03:frictionless-contracts-reached",
                      abs(h.get(c, 0.0) - x) <= 8 * 2.3e-16 * max(1, abs(x), abs(hprev.get(c, 0.0))),
                      contract=c.symbol, got=h.get(c, 0.0), want=x)
    t += timedelta(seconds=1)
    r2 = Rebalancing(keys, vals, measure=meas, time=t)
    b.rebalance(r2)
    tot = sum(abs(x.notional) for x in r2.trades)
    ctx.check("C03:second-rebalance-trades-nothing", tot <= 1e-9 * gross, traded=tot, nlv=n0)
    if rng.random() < 0.4 and chain is None:
        # the SAME request object is then applied to another account (a model portfolio applied to
        # several accounts): that account's own NLV and holdings decide its trades
        b2 = Broker(ex, deposit=dep * rng.choice([0.5, 3.0]))
        if rng.random() < 0.5:
            b2.rebalance(Rebalancing(cs, [rng.uniform(-0.5, 0.8) for _ in cs], time=t - timedelta(hours=1)))
        m0 = b2.net_liquidation_value()
        prior = b2.holdings_quantity
        b2.rebalance(r2)
        h2 = b2.holdings_quantity
        if meas == "weight":
            w2 = b2.holdings_weights()
            g2 = m0 + sum(abs(q * mid[c] * c.multiplier) for c, q in h2.items() if c in mid)
            for c, x in zip(cs, tgt):
                ctx.check("C03:same-request-other-account", abs(w2.get(c, 0.0) - x) <= 1e-9 * max(1.0, g2 / m0) + 1.01e-7 * c.multiplier * mid[c] / m0,
                          contract=c.symbol, got=w2.get(c, 0.0), want=x)
        else:
            for c, x in zip(cs, tgt):
                ctx.check("C03:same-request-other-account", abs(h2.get(c, 0.0) - x) <= 8 * 2.3e-16 * max(1, abs(x), abs(prior.get(c, 0.0))),
                          contract=c.symbol, got=h2.get(c, 0.0), want=x)
        ctx.cat("same-request-two-accounts")
    if chain is None and rng.random() < 0.3:
        # the same target requested again WITHOUT a time (the request stamps itself with the current time), twice:
        # both are accepted, neither trades anything of economic size, both are recorded
        n_rec = len(b.track_record)
        try:
            tot = 0.0
            for _ in range(2):
                r3 = Rebalancing(keys, vals, measure=meas)
                b.rebalance(r3)
                tot += sum(abs(x.notional) for x in r3.trades)
            ctx.check("C03:second-rebalance-trades-nothing", tot <= 1e-9 * gross and len(b.track_record) == n_rec + 2,
                      traded=tot, nlv=n0, without_time=True, records=len(b.track_record) - n_rec)
        except Exception as ex_:
            ctx.check("C03:second-rebalance-trades-nothing", False, without_time=True, error=repr(ex_)[:200],
                      records=len(b.track_record) - n_rec)
        ctx.cat("requests-without-time")
    ctx.cat("frictionless:" + meas, "frictionless:history{}".format(nhist))
    ctx.nontrivial = nhist > 0 and (any(x < 0 or x > 1 for x in tgt) or
                                    len({gen.is_margined(c) for c in cs}) == 2)
    gross = gross
    AbstractContract.now = datetime.min
    ctx.sample = {"frictionless": True, "contracts": [gen.describe_contract(c) if c is not chain else {"chain": type(chain.contracts[0]).__name__, "month": chain_month} for c in cs], "measure": meas,
                  "targets": tgt, "targeted": [c.symbol if c is not chain else "chain" for c in keys], "prior_rebalances": nhist, "deposit": dep}


def restored_account(blob, quotes, targets, measure, when):
    """Runs in ANOTHER interpreter (another string-hash seed): the pickled account is restored, the market moves -
    quotes addressed to contract objects constructed HERE - and a rebalance to `targets` (again on fresh contract
    objects) is executed.  Returns what the account then says, by symbol."""
    import pickle
    b = pickle.loads(blob)
    mk = {"ETF": ETF, "ES": lambda s_: ES(2000 + int(s_[-2:]), {"H": 3, "M": 6, "U": 9, "Z": 12}[s_[-3]])}
    objs = {sym: mk[kind](sym) for sym, kind in quotes["kinds"].items()}
    AbstractContract.now = when
    for sym, (bid, ask) in quotes["prices"].items():
        b.exchange.process_EventNBBO(EventNBBO(when, objs[sym], bid, ask))
    n0 = b.net_liquidation_value()
    keys = [objs[sym] for sym in targets]
    r = Rebalancing(keys, [targets[sym] for sym in targets], measure=measure, time=when)
    b.rebalance(r)
    h = {}
    for c, q in b.holdings_quantity.items():
        h.setdefault(c.symbol, []).append(float(q))
    return {"nlv_before": float(n0), "nlv_after": float(b.net_liquidation_value()), "holdings": h,
            "weights": {c.symbol: float(w) for c, w in b.holdings_weights().items()},
            "trades": [(t_.contract.symbol, float(t_.quantity)) for t_ in r.trades]}


def restored_scenario(ctx):
    """An account saved with pickle and restored in another interpreter session keeps working: contracts are what
    their symbols say, whichever object (from the pickle, or constructed in the new session) names them."""
    import pickle
    from vf import alone
    rng = ctx.rng
    t = datetime(2019, 1, 1)
    fees = BrokerFees()
    ex = gen.new_exchange(t, fees)
    cs = [ETF("A"), ETF("B"), ES(2019, 6)][: rng.randint(2, 3)]
    mid = {c: rng.choice([20.0, 100.0, 2500.0]) for c in cs}
    for c in cs:
        ex.process_EventNBBO(EventNBBO(t, c, mid[c], mid[c]))
    dep = rng.choice([1e5, 1e7])
    b = Broker(ex, deposit=dep)
    b.rebalance(Rebalancing(cs, [rng.uniform(0.1, 0.4) for _ in cs], time=t))
    when = t + timedelta(days=1)
    prices = {c.symbol: (mid[c] * f, mid[c] * f) for c in cs for f in [rng.uniform(0.8, 2.0)]}
    meas = rng.choice(["weight", "nr-contracts"])
    tgt = {c.symbol: (rng.uniform(-0.5, 0.8) if meas == "weight" else float(rng.randint(-20, 40))) for c in cs if rng.random() < 0.8}
    res = alone.call("c03", "restored_account", pickle.dumps(b), {"kinds": {c.symbol: type(c).__name__ for c in cs}, "prices": prices},
                     tgt, meas, when, env={"PYTHONHASHSEED": str(rng.randint(1, 10 ** 6))})
    # reference: what the account is worth at the new quotes
    want_nlv = b.holdings_quantity[Cash()] + sum(b.holdings_margins.values())
    for c in cs:
        q = b.holdings_quantity.get(c, 0.0)
        if gen.is_margined(c):
            want_nlv += q * c.multiplier * (prices[c.symbol][0] - mid[c])
        else:
            want_nlv += q * c.multiplier * prices[c.symbol][0]
    ok = all(len(v) == 1 for v in res["holdings"].values())
    ctx.check("C03:restored-account", ok, reason="one entry per contract", holdings=res["holdings"])
    scale = dep + sum(abs(b.holdings_quantity.get(c, 0.0)) * c.multiplier * prices[c.symbol][0] for c in cs)
    ctx.check("C03:restored-account", abs(res["nlv_before"] - want_nlv) <= 1e-9 * scale and abs(res["nlv_after"] - want_nlv) <= 1e-9 * scale,
              reason="NLV before and after the frictionless rebalance = value at the new quotes",
              before=res["nlv_before"], after=res["nlv_after"], want=want_nlv)
    for c in cs:
        x = tgt.get(c.symbol, 0.0)
        got_q = sum(res["holdings"].get(c.symbol, [0.0]))
        if meas == "weight":
            want_q = x * want_nlv / (prices[c.symbol][0] * c.multiplier)
            ctx.check("C03:restored-account", abs(got_q - want_q) <= 1e-9 * max(1.0, abs(want_q)) + 1.01e-7, reason="target weight reached",
                      contract=c.symbol, got=got_q, want=want_q)
        else:
            ctx.check("C03:restored-account", abs(got_q - x) <= 1e-9 * max(1.0, abs(x)), reason="target contracts reached",
                      contract=c.symbol, got=got_q, want=x)
    ctx.cat("account-restored-in-another-interpreter")
    ctx.nontrivial = True
    ctx.sample = {"scenario": "account pickled, restored in another interpreter", "measure": meas, "targets": tgt}


def chain_series_roll_scenario(ctx):
    """The chain is the rebalancing target AND the market data is one continuous series addressed to the chain itself
    (every quote lands in the book of whatever contract leads at that time).  A position is carried to a roll: the
    rebalance right after the last-trading instant closes the old lead at its last quote and re-establishes the
    target in the new lead at the chain's current quote."""
    rng = ctx.rng
    cls_ = rng.choice([ES, NK])
    AbstractContract.now = datetime.min
    chain = FutureChain(cls_, "2019-01", "2019-12")
    old, new = chain.contracts[0], chain.contracts[1]
    ltd = old.last_trading_date
    ltd = ltd.to_pydatetime() if hasattr(ltd, "to_pydatetime") else ltd
    t1 = ltd - timedelta(days=rng.randint(5, 20))
    t2 = ltd + timedelta(hours=rng.choice([1, 30]))
    fees = BrokerFees()
    AbstractContract.now = t1
    ex = gen.new_exchange(t1, fees)
    px1 = rng.choice([100.0, 2500.0]) * rng.uniform(0.9, 1.1)
    ex.process_EventNBBO(EventNBBO(t1, chain, px1, px1))            # the very first access to that book is by the chain
    dep = rng.choice([1e5, 1e7])
    b = Broker(ex, deposit=dep)
    w1 = rng.choice([-1, 1]) * rng.uniform(0.3, 1.5)
    b.rebalance(Rebalancing([chain], [w1], time=t1))
    h = b.holdings_quantity
    ctx.check("C03:frictionless-weights", abs(h.get(old, 0.0) * old.multiplier * px1 - w1 * dep) <= 1e-9 * dep * max(1, abs(w1)),
              contract=old.symbol, got=h.get(old, 0.0) * old.multiplier * px1, want=w1 * dep, scenario="chain-series")
    # a few more prints of the series before the roll, then the roll
    px = px1
    for k_ in range(rng.randint(0, 3)):
        px *= rng.uniform(0.98, 1.02)
        tk = t1 + timedelta(hours=k_ + 1)
        AbstractContract.now = tk
        ex.process_EventNBBO(EventNBBO(tk, chain, px, px))
    n_before = dep + h.get(old, 0.0) * old.multiplier * (px - px1)
    AbstractContract.now = t2
    px2 = px * rng.uniform(0.97, 1.03)
    ex.process_EventNBBO(EventNBBO(t2, chain, px2, px2))            # lands in the NEW lead's book
    w2 = w1 * rng.uniform(0.8, 1.2)
    try:
        r = Rebalancing([chain], [w2], time=t2)
        b.rebalance(r)
    except Exception as ex_:
        ctx.check("C03:chain-others-flat", False, error=repr(ex_)[:200], scenario="chain-series", roll=[old.symbol, new.symbol])
        AbstractContract.now = datetime.min
        return
    h2 = b.holdings_quantity
    ctx.check("C03:chain-others-flat", h2.get(old, 0.0) == 0.0, held={c.symbol: q for c, q in h2.items() if q and not isinstance(c, Cash)},
              scenario="chain-series")
    ctx.check("C03:frictionless-nlv-unchanged", abs(b.net_liquidation_value() - n_before) <= 1e-9 * (dep + abs(w1) * dep),
              before=n_before, after=b.net_liquidation_value(), scenario="chain-series")
    ctx.check("C03:frictionless-weights", abs(h2.get(new, 0.0) * new.multiplier * px2 - w2 * n_before) <= 1e-9 * dep * max(1, abs(w2)),
              contract=new.symbol, got=h2.get(new, 0.0) * new.multiplier * px2, want=w2 * n_before, scenario="chain-series")
    AbstractContract.now = datetime.min
    ctx.cat("chain-target-with-chain-addressed-series-through-a-roll")
    ctx.nontrivial = True
    ctx.sample = {"scenario": "chain series through a roll", "class": cls_.__name__, "w": [w1, w2]}


class Switch(AbstractContract):
    """A user-defined COMPOSITE contract (not a FutureChain): an alias of `before` until `when`, of `after` from then on
    - a fund replaced by its successor share class, a generic 'on-the-run' instrument.  As the package documents for
    composite contracts, static_hashing() hands out the contract it designates now; everything else follows that leg."""

    def __init__(self, before, after, when):
        self.before, self.after, self.when = before, after, when

    def _leg(self):
        return self.before if self.now < self.when else self.after

    def static_hashing(self):
        return self._leg()

    underlyings = property(lambda s: [s.before, s.after])
    symbol = property(lambda s: s._leg().symbol)
    multiplier = property(lambda s: s._leg().multiplier)
    margin_requirement = property(lambda s: s._leg().margin_requirement)
    cash_requirement = property(lambda s: s._leg().cash_requirement)


def user_composite_scenario(ctx):
    """A user composite as rebalancing target (weights or numbers of contracts), both legs quoted throughout, no
    frictions: the position is in the leg designated NOW; once the designation changes, the next rebalance closes the
    old leg, establishes the target in the new one, and NLV only moves with prices."""
    rng = ctx.rng
    kind = rng.choice(["spot", "spot-mult", "margined"])
    if kind == "spot":
        old, new = ETF("OLD"), ETF("NEW")
    elif kind == "spot-mult":
        old, new = gen.SpotMult("OLDM", 10.0), gen.SpotMult("NEWM", 2.5)
    else:
        old, new = gen.UserFuture("OLDF", 5.0, 0.3), gen.UserFuture("NEWF", 5.0, 0.3)
    t = [datetime(2021, 3, 1) + timedelta(days=k) for k in range(6)]
    alias = Switch(old, new, when=t[3])
    other = ETF("A")
    fees = BrokerFees()
    AbstractContract.now = t[0]
    ex = gen.new_exchange(t[0], fees)
    dep = rng.choice([1e4, 1e6])
    b = Broker(ex, deposit=dep)
    px = {old: rng.uniform(5, 50), new: rng.uniform(50, 500), other: 20.0}
    asw = rng.random() < 0.7
    nlv = dep
    pos = {old: 0.0, new: 0.0, other: 0.0}
    try:
        for k in range(6):
            AbstractContract.now = t[k]
            for c in (old, new, other):
                p1 = px[c] * rng.uniform(0.97, 1.03) if k else px[c]
                nlv += pos[c] * c.multiplier * (p1 - px[c])
                px[c] = p1
                ex.process_EventNBBO(EventNBBO(t[k], c, p1, p1))
            if k in (1, 2, 4, 5):
                leg, idle = (old, new) if k < 3 else (new, old)
                w = rng.choice([-1, 1]) * rng.uniform(0.2, 1.2)
                wo = rng.choice([0.0, 0.2])
                if asw:
                    b.rebalance(Rebalancing([alias, other], [w, wo], time=t[k]))
                    want = {leg: w * nlv / (leg.multiplier * px[leg]), other: wo * nlv / px[other]}
                else:
                    w, wo = float(round(w * 20)), float(round(wo * 50))
                    b.rebalance(Rebalancing([alias, other], [w, wo], measure="nr-contracts", time=t[k]))
                    want = {leg: w, other: wo}
                h = b.holdings_quantity
                ctx.check("C03:chain-others-flat", h.get(idle, 0.0) == 0.0, scenario="user-composite", step=k, kind=kind,
                          held={c.symbol: q for c, q in h.items() if q and not isinstance(c, Cash)}, designated=leg.symbol)
                for c in (leg, other):
                    ctx.check("C03:target-weight-reached" if asw else "C03:target-contracts-reached",
                              abs(h.get(c, 0.0) - want[c]) <= 1e-9 * max(1.0, abs(want[c])), scenario="user-composite", step=k,
                              contract=c.symbol, got=h.get(c, 0.0), want=want[c], kind=kind)
                ctx.check("C03:frictionless-nlv-unchanged", abs(b.net_liquidation_value() - nlv) <= 1e-9 * (dep + abs(nlv)),
                          before=nlv, after=b.net_liquidation_value(), scenario="user-composite", step=k, kind=kind)
                pos = {old: h.get(old, 0.0), new: h.get(new, 0.0), other: h.get(other, 0.0)}
    except Exception as ex_:
        ctx.check("C03:chain-others-flat", False, error=repr(ex_)[:300], scenario="user-composite", kind=kind)
    finally:
        AbstractContract.now = datetime.min
    ctx.cat("user-composite-target-through-a-switch")
    ctx.nontrivial = True
    ctx.sample = {"scenario": "user composite contract through its switch date", "legs": kind, "as_weights": asw}


def case(ctx, i, tier):
    if i % 50 == 31:
        return user_composite_scenario(ctx)
    if i % 750 == 13:
        return restored_scenario(ctx)
    if i % 150 == 77:
        return chain_series_roll_scenario(ctx)
    if i % 2 == 0:
        frictionless(ctx)
    else:
        bl.history(ctx, {"C03"})
        ctx.nontrivial = ctx.cats.get("op:rebalance:weight", 0) + ctx.cats.get("op:rebalance:nr-contracts", 0) >= 2
