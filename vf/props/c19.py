"""C19 - futures calendars: expiry rules, cut-off before expiry, ordered chains (engine CAL, exhaustive)."""
import calendar
import datetime as dt
from datetime import datetime, timedelta

from tradingenv.contracts import ES, NK, VX, ZQ, ZT, ZF, ZN, ZB, Future, FutureChain, AbstractContract
from tradingenv.events import EventContractDiscontinued

PROP = "C19"
LEVEL = "exploration"
ENGINE = "CAL"
CLASSES = [ES, NK, VX, ZQ, ZT, ZF, ZN, ZB]
YEARS = list(range(1970, 2100))
N = {"quick": 300, "thorough": 6000}
TIME = {"quick": 300, "thorough": 420}
RULE = ("Systematic part: the whole (class, year, month) domain - 8 built-in classes x 1970..2099 x 12 months = 12 480 constructions - "
        "is enumerated (one systematic case per class x year); expiry is compared with an oracle written with datetime/calendar only "
        "(n-th Friday; third Friday of the following month minus 30 days and it is a Wednesday; last Mon-Fri of the month), "
        "last_trading_date < expiry, symbol = class + month code + two-digit expiry year. Plus, per class, chains starting every 7th "
        "year x lengths {1,3,30,100} years. Random part: chains with random month-level spans and offsets: strictly increasing expiries "
        "and last-trading dates, unique symbols within 100 years, make_events() = exactly one discontinuation per contract stamped at "
        "its expiry. Every case is non-trivial (a distinct part of the "
        "domain).")
ASSUMPTIONS = ["the oracle is the property's own wording of the exchange rules; exchange holidays are not modelled by the property"]
REQUIRED_CATS = ["user-subclass-of-a-built-in-future:parent-first", "user-subclass-of-a-built-in-future:subclass-first", "span-ends-on-a-period-end", "float-arguments-refused-then-retried", "explicit-contracts:list", "explicit-contracts:ndarray", "explicit-contracts:series-permuted-index",
                 "explicit-contracts:series-filtered"]
REQUIRED = ["C19:user-subclass-own-rule", "C19:survives-copy", "C19:expiry-rule", "C19:cutoff-before-expiry", "C19:symbol", "C19:chain-ordered", "C19:chain-unique-symbols",
            "C19:chain-events"]
TECHNIQUE = "runtime monitoring: exhaustive enumeration of the calendar domain against a datetime-only reference"
LEVEL_TEXT = ("Exhaustive enumeration of the per-contract domain (every class, year 1970-2099, month) against an independent "
              "datetime/calendar oracle, plus systematic and random chain spans. The per-contract part is complete, chains are sampled.")
LEVEL_NOTE = ("Trusted: Python's datetime/calendar. Mutation audit: reverted VX frequency fix, wrong Friday index, -29 days, last "
              "calendar day, cut-off after expiry, unsorted chain are caught.")


def nth_weekday(y, m, wd, n):
    d = dt.date(y, m, 1)
    off = (wd - d.weekday()) % 7
    return d + dt.timedelta(days=off + 7 * (n - 1))


def last_weekday(y, m):
    d = dt.date(y, m, calendar.monthrange(y, m)[1])
    while d.weekday() >= 5:
        d -= dt.timedelta(days=1)
    return d


def want_expiry(cls, y, m):
    if cls is ES:
        return nth_weekday(y, m, 4, 3)
    if cls is NK:
        return nth_weekday(y, m, 4, 2)
    if cls is VX:
        ny, nm = (y + 1, 1) if m == 12 else (y, m + 1)
        return nth_weekday(ny, nm, 4, 3) - dt.timedelta(days=30)
    return last_weekday(y, m)


def pydt(x):
    return x.to_pydatetime() if hasattr(x, "to_pydatetime") else x


def as_date(x):
    return x.date() if hasattr(x, "date") else x


def check_contract(ctx, cls, y, m):
    if ctx.rng.random() < 0.15:
        # the first attempt comes with the year and month as FLOATS (a row of a DataFrame that also has a float
        # column): whether it is refused or not, the contract built next from ints is the one specified
        try:
            cls(float(y), float(m))
        except Exception:
            ctx.cat("float-arguments-refused-then-retried")
    c = cls(y, m)
    exp, ltd = c.expiry, c.last_trading_date
    AbstractContract.now = ctx.rng.choice([datetime.min, datetime(2150, 1, 1)])
    ev1 = c.make_events()
    AbstractContract.now = datetime.min
    ctx.check("C19:contract-event", len(ev1) == 1 and ev1[0].time == exp and ev1[0].contract is c, cls=cls.__name__, year=y, month=m,
              events=len(ev1))
    want = want_expiry(cls, y, m)
    ok = as_date(exp) == want and (cls is not VX or want.weekday() == 2)
    ok = ok and exp.hour == 0 and exp.minute == 0
    ctx.check("C19:expiry-rule", ok, cls=cls.__name__, year=y, month=m, got=exp, want=want)
    ctx.check("C19:cutoff-before-expiry", ltd < exp, cls=cls.__name__, year=y, month=m, last_trading=ltd, expiry=exp)
    sym = cls.__name__ + Future.month_codes[exp.month] + ("%02d" % (exp.year % 100))
    ctx.check("C19:symbol", c.symbol == sym and c.symbol_short == cls.__name__, got=c.symbol, want=sym)
    # the contract after a copy / deep copy / pickle round trip (what TrackRecord.save, a checkpoint of an environment
    # or a copied chain does to it) is the same contract: same dates, same symbol, same event
    import copy
    import pickle
    for how, c2 in (("copy", copy.copy(c)), ("deepcopy", copy.deepcopy(c)), ("pickle", pickle.loads(pickle.dumps(c)))):
        ev2 = c2.make_events()
        ctx.check("C19:survives-copy", c2.expiry == exp and c2.last_trading_date == ltd and c2.symbol == c.symbol and c2 == c
                  and hash(c2) == hash(c) and len(ev2) == 1 and ev2[0].time == exp,
                  how=how, cls=cls.__name__, year=y, month=m, expiry=[c2.expiry, exp], last_trading=[c2.last_trading_date, ltd])
    return c


def check_chain(ctx, cls, start, end, month=0):
    ch = FutureChain(cls, start, end, month=month)
    cs = ch.contracts
    if not cs:
        ctx.cat("empty-span")
        return ch
    ex = [c.expiry for c in cs]
    lt = [c.last_trading_date for c in cs]
    ctx.check("C19:chain-ordered", all(a < b for a, b in zip(ex, ex[1:])) and all(a < b for a, b in zip(lt, lt[1:])),
              cls=cls.__name__, start=start, end=end, n=len(cs))
    if 2 <= len(cs) <= 80 and ctx.rng.random() < 0.5:
        # the same contracts handed over explicitly, in any order and in any of the usual containers (list,
        # tuple, numpy array, pandas Series with a default / permuted / filtered index): the chain lists them
        # in increasing expiry order all the same
        import numpy as np
        import pandas as pd
        shuf = list(cs)
        ctx.rng.shuffle(shuf)
        kind = ctx.rng.choice(["list", "tuple", "ndarray", "series", "series-permuted-index", "series-filtered"])
        want_cs = list(cs)
        if kind == "list":
            given = shuf
        elif kind == "tuple":
            given = tuple(shuf)
        elif kind == "ndarray":
            given = np.array(shuf, dtype=object)
        elif kind == "series":
            given = pd.Series(shuf)
        elif kind == "series-permuted-index":
            idx = list(range(len(shuf)))
            ctx.rng.shuffle(idx)
            given = pd.Series(shuf, index=idx)
        else:
            ser = pd.Series(shuf)
            keep = [ctx.rng.random() < 0.7 for _ in shuf]
            if sum(keep) < 2:
                keep = [True] * len(shuf)
            given = ser[keep]
            want_cs = [c for c in cs if any(c is g for g in given)]
        ch2 = FutureChain(contracts=given)
        ctx.check("C19:chain-ordered", len(ch2.contracts) == len(want_cs) and all(a is b for a, b in zip(ch2.contracts, want_cs)),
                  cls=cls.__name__, start=start, end=end, container=kind, got=[c.symbol for c in ch2.contracts][:12],
                  want=[c.symbol for c in want_cs][:12])
        ctx.cat("explicit-contracts:" + kind)
    if len(cs) <= 200 and ctx.rng.random() < 0.3:
        import copy
        import pickle
        for how, ch3 in (("deepcopy", copy.deepcopy(ch)), ("pickle", pickle.loads(pickle.dumps(ch)))):
            ex3 = [c.expiry for c in ch3.contracts]
            ev3 = ch3.make_events()
            ctx.check("C19:survives-copy", ex3 == ex and [c.last_trading_date for c in ch3.contracts] == lt and
                      [e.time for e in ev3] == ex and [c.symbol for c in ch3.contracts] == [c.symbol for c in cs],
                      how=how, chain=True, cls=cls.__name__, start=start, end=end)
        ctx.cat("chain-copied")
    syms = [c.symbol for c in cs]
    span_years = (ex[-1].year - ex[0].year) if cs else 0
    if span_years < 100:
        ctx.check("C19:chain-unique-symbols", len(set(syms)) == len(syms), cls=cls.__name__, start=start, end=end)
    # the events do not depend on the process-wide clock (left wherever an earlier episode put it)
    AbstractContract.now = ctx.rng.choice([datetime.min, datetime(2150, 1, 1), pydt(ex[len(ex) // 2])])
    ch.make_events()                      # an earlier call (e.g. by another environment built on this chain)
    evs = ch.make_events()
    AbstractContract.now = datetime.min
    ctx.check("C19:chain-events", len(evs) == len(cs) and all(
        isinstance(e, EventContractDiscontinued) and e.time == c.expiry and e.contract is c for e, c in zip(evs, cs)),
        cls=cls.__name__, start=start, end=end, events=len(evs), contracts=len(cs))
    return ch


def want_year_month(cls, c):
    """(year, month) the contract was constructed for = its symbol month/year;
    for VX the expiry falls in that month too."""
    return (c.expiry.year, c.expiry.month)


SPANS = [1, 3, 30, 100]
STARTS = list(range(1970, 2099, 7))


def sys_count(tier):
    return len(CLASSES) * len(YEARS) + len(CLASSES) * len(STARTS)


def exhaustive(tier):
    return True


def sys_case(ctx, j, tier):
    AbstractContract.now = datetime.min
    ncy = len(CLASSES) * len(YEARS)
    if j < ncy:
        cls = CLASSES[j // len(YEARS)]
        y = YEARS[j % len(YEARS)]
        for m in range(1, 13):
            check_contract(ctx, cls, y, m)
        ctx.cat("contracts:" + cls.__name__)
        ctx.sample = {"class": cls.__name__, "year": y, "months": "1..12"}
    else:
        j -= ncy
        cls = CLASSES[j // len(STARTS)]
        sy = STARTS[j % len(STARTS)]
        for L in SPANS:
            ey = min(2099, sy + L)
            check_chain(ctx, cls, "%d-01" % sy, "%d-12" % ey)
        ctx.cat("chains:" + cls.__name__)
        ctx.sample = {"class": cls.__name__, "chain_start_year": sy, "lengths": SPANS}
    ctx.nontrivial = True


def user_subclass_case(ctx):
    """A user subclasses a BUILT-IN future to change its calendar (a holiday-adjusted VX, an ES settled a day earlier):
    the subclass follows its own rule, and the built-in class next to it - same months, same process, either order of
    first use - keeps following the exchange rule."""
    rng = ctx.rng
    AbstractContract.now = datetime.min
    cls = rng.choice(CLASSES)
    shift = timedelta(days=rng.choice([1, 3]))
    sub = type(cls.__name__ + "H", (cls,), {"_get_expiry_date": lambda self, y, m, _c=cls, _s=shift: _c._get_expiry_date(self, y, m) - _s})
    months = [(rng.randint(1970, 2099), rng.choice([3, 6, 9, 12])) for _ in range(3)]
    order = rng.choice(["parent-first", "subclass-first"])
    for y, m in months:
        if order == "parent-first":
            check_contract(ctx, cls, y, m)
        u = sub(y, m)
        want = want_expiry(cls, y, m) - shift
        ctx.check("C19:user-subclass-own-rule", as_date(u.expiry) == want and u.last_trading_date < u.expiry and
                  u.symbol_short == cls.__name__ + "H", cls=cls.__name__, year=y, month=m, got=u.expiry, want=want, order=order)
        p = check_contract(ctx, cls, y, m)
        ev = u.make_events()
        ctx.check("C19:user-subclass-own-rule", len(ev) == 1 and ev[0].time == u.expiry and ev[0].contract is u and
                  as_date(p.expiry) == want_expiry(cls, y, m), cls=cls.__name__, year=y, month=m, order=order, part="events")
        u2 = sub(y, m)
        ctx.check("C19:user-subclass-own-rule", u2.expiry == u.expiry and u2.last_trading_date == u.last_trading_date,
                  cls=cls.__name__, year=y, month=m, order=order, part="built-again")
    ctx.cat("user-subclass-of-a-built-in-future:" + order)
    ctx.nontrivial = True
    ctx.sample = {"user_subclass_of": cls.__name__, "shift_days": shift.days, "months": months, "order": order}


def case(ctx, i, tier):
    if i % 5 == 3:
        return user_subclass_case(ctx)
    rng = ctx.rng
    AbstractContract.now = datetime.min
    cls = rng.choice(CLASSES)
    sy = rng.randint(1970, 2095)
    sm = rng.randint(1, 12)
    length = rng.choice([1, 2, 5, 12, 40, 130, 400])
    ey, em = sy + (sm - 1 + length) // 12, (sm - 1 + length) % 12 + 1
    if ey > 2099:
        ey, em = 2099, 12
    start, end = "%d-%02d" % (sy, sm), "%d-%02d" % (ey, em)
    if rng.random() < 0.4:
        # spans given to the day, the end falling exactly on a month / quarter end (the way a calendar year is written)
        import calendar as _cal
        start = "%d-%02d-%02d" % (sy, sm, rng.choice([1, 15]))
        end = "%d-%02d-%02d" % (ey, em, _cal.monthrange(ey, em)[1])
        ctx.cat("span-ends-on-a-period-end")
    try:
        ch = check_chain(ctx, cls, start, end, month=rng.choice([0, 0, 1, 2]))
    except IndexError:
        ctx.cat("empty-span")
        ch = None
    ctx.cat("random-chain:" + cls.__name__)
    ctx.nontrivial = ch is not None and len(ch.contracts) >= 2
    ctx.sample = {"class": cls.__name__, "start": start, "end": end, "contracts": len(ch.contracts) if ch else 0}
