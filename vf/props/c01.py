"""C01 - self-financing NLV identity (engines BL + EP)."""
from vf import bl

PROP = "C01"
LEVEL = "exploration"
N = {"quick": 2500, "thorough": 160000}
TIME = {"quick": 300, "thorough": 420}
RULE = ("Random broker histories of 5-60 operations {quote, trade(open/add/reduce/close/flip), mark one/all, "
        "valuation, weights, context, rebalance(weights | nr-contracts, with untargeted holdings)} over 1-5 contracts "
        "drawn from built-in and user-defined spot-like (multiplier 0.1..100) and margined (margin 0.004..1) contracts, "
        "spreads {0,1e-4,1e-2,0.1}, fixed/proportional fees, interest-rate path; plus twin spot/future histories and "
        "whole TradingEnv episodes. After EVERY operation the reported NLV is compared with the shadow-ledger identity and "
        "the per-operation delta with the stated delta. Non-trivial = the history adds to or flips a margined position "
        "at a positive spread, or trades a spot contract with multiplier != 1; distinct = distinct case digest.")
ASSUMPTIONS = [
    "interest amounts are taken from the broker's own return values (their correctness is C06)",
    "trades are priced at the exchange's current quotes (the rebalancing path); other prices are outside the quantifier",
    "tolerance 1e-9 x (deposit + gross traded notional + open notional)",
]
REQUIRED = ["C01:pre-nlv-replayed", "C01:post-nlv-replayed", "C01:nlv-identity", "C01:delta-trade", "C01:delta-quote", "C01:context-pre", "C01:context-post",
            "C01:twin-spot-future"]
REQUIRED_CATS = ["flat-margined-contract-discontinued", "liquidation-quote-exactly-zero", "op:rebalance-refused-then-carry-on", "valuation-attempted-during-a-feed-gap"]
REQUIRED_HITS = ["Broker.transact", "Broker.rebalance"]


def case(ctx, i, tier):
    k = i % 10
    if k == 9:
        bl.twin_spot_future(ctx)
    elif k == 8:
        # episode variant: the same identity over whole TradingEnv episodes
        # (latency, delay, rate path, chains every other time)
        from vf import epl
        cfg, outs = epl.ledger_episode(ctx, {"C01"}, chain=(i % 20 == 18), discrete=False)
        ctx.cat("episode")
        ctx.nontrivial = len(outs) >= 3
    elif k == 7:
        bl.special_quotes(ctx, {"C01"})
    else:
        bl.history(ctx, {"C01"})
        ctx.nontrivial = ctx.notes.get("nt01", False)

ENGINE = "BL+EP"
TECHNIQUE = "runtime monitoring: shadow-ledger reference model checked after every operation of generated broker histories and episodes"
LEVEL_TEXT = ("Exploration. The real Broker/Exchange run thousands of generated histories (open/add/reduce/close/flip on spot-like "
              "and margined contracts incl. user-defined ones, spreads, fees, interest, rebalances); after every single operation the "
              "reported NLV must equal an independent ledger identity and the per-operation delta the stated delta; twin spot/future "
              "histories must move NLV identically. Held on the executions observed, not proved for all histories.")
LEVEL_NOTE = ("Trusted: numpy/pandas/gymnasium, the interest amounts returned by the broker (decided by C06), the harness ledger "
              "(60 lines, validated by mutation audit: reverting either repository fix and 6 further accounting mutants are caught).")
