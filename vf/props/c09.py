"""C09 - insolvency safety (engine EP, fault enumeration over adverse price paths)."""
import math
import traceback
from datetime import datetime, timedelta

import numpy as np

from tradingenv.env import TradingEnv
from tradingenv.contracts import ETF, ES, Cash, AbstractContract
from tradingenv.spaces import BoxPortfolio
from tradingenv.transmitter import Transmitter
from tradingenv.events import EventNBBO
from tradingenv.broker.broker import EndOfEpisodeError
from tradingenv.broker.fees import BrokerFees
from tradingenv.rewards import RewardPnL, RewardLogReturn, LogReturn, RewardSimpleReturn

from vf import ep, gen
from vf.ledger import Ledger

PROP = "C09"
LEVEL = "fault_enumeration"
ENGINE = "EP"
N = {"quick": 1500, "thorough": 60000}
TIME = {"quick": 300, "thorough": 420}
POSITIONS = ["latent", "nonlatent"]
RULE = ("Adverse-path fault enumeration: instrument {spot long leveraged w in (1,5], spot short w in [-3,0), ES / user future at "
        "5-30% margin either sign} x ruin placed {inside the latency window before decision j, in the non-latent batch of step j} x "
        "{first step, later} x severity {NLV exactly 0 (exact binary arithmetic), slightly below 0, far below 0, control: adverse but "
        "solvent} x 4 reward classes x follow-up calls (two more steps, then reset and a further step). A ledger replay of the observer "
        "log gives the NLV at each decision. Oracle: (a) a decision arriving with NLV <= 0 executes zero Broker.transact calls and "
        "leaves holdings and len(track_record) unchanged; (b) net_liquidation_value() raises EndOfEpisodeError iff the "
        "raise_if_broke=False value is <= 0; (c) after a step returned done or a decision arrived insolvent, every step raises "
        "EndOfEpisodeError and has no effect until reset, after which stepping works; (d) the ruining step returns done=True. "
        "Non-trivial = the path actually drives NLV <= 0 (not the control).")
ASSUMPTIONS = ["zero interest rate (interest is C06) so that the ledger knows the decision-time NLV without calling a mutating valuation",
               "known finding step-raises-from-reward (K1) is classified by mechanism: EndOfEpisodeError through rewards.*.calculate "
               "ending in Broker.net_liquidation_value while the account is insolvent"]
REQUIRED = ["C09:interest-ruin-reached", "C09:nonraising-valuation-is-current", "C09:insolvent-decision-trades-nothing", "C09:valuation-raises-iff-nonpositive", "C09:refused-after-end",
            "C09:reset-reenables", "C09:control-stays-solvent", "C09:exact-zero-is-insolvent"]
REQUIRED_CATS = ["broker-level:micro-priced-contract", "another-environment-trades-the-same-future", "a-decision-refused-earlier-in-the-episode", "second-episode-on-same-environment", "short-valued-at-zero-quote-before-rally", "scenario:interest-ruin", "broker-level:insolvent", "ruin:latent", "ruin:nonlatent", "severity:exact-zero", "severity:below", "severity:far-below", "severity:control",
                 "first-step", "later-step", "spot-long", "spot-short", "margined"]
REQUIRED_HITS = ["Broker.transact", "Broker.rebalance", "Broker.net_liquidation_value"]
TECHNIQUE = "runtime monitoring with fault injection: ruining price paths at every position of a step; ledger replay decides decision-time NLV; transact hook proves no trade"
LEVEL_TEXT = ("Fault enumeration over where in a step the ruining move lands, instrument, severity (including NLV == 0 exactly), reward "
              "class and follow-up calls, on real TradingEnv episodes; hooks count Broker.transact so 'never trades' is observed.")
LEVEL_NOTE = ("Trusted: ledger for decision-time NLV. One known finding (K1) is reported as KNOWN-FINDING; any other escape is a "
              "violation. Mutation audit: '<= 0' -> '< 0', the except around rebalance removed, step not refusing after done, trades "
              "executed before the NLV check are caught.")

REPO_REWARDS = "rewards.py"


def classify_escape(exc):
    """K1 iff EndOfEpisodeError whose traceback passes through
    tradingenv/rewards.py:calculate and ends in Broker.net_liquidation_value."""
    if not isinstance(exc, EndOfEpisodeError):
        return None
    frames = traceback.extract_tb(exc.__traceback__)
    names = [(f.filename, f.name) for f in frames if "/vf/" not in f.filename]
    through_reward = any(fn.endswith("tradingenv/" + REPO_REWARDS) and name == "calculate" for fn, name in names)
    ends_in_nlv = bool(names) and names[-1][1] == "net_liquidation_value" and names[-1][0].endswith("broker/broker.py")
    through_rebalance = any(name == "rebalance" and fn.endswith("broker/broker.py") for fn, name in names)
    if through_reward and ends_in_nlv and not through_rebalance:
        return "step-raises-from-reward"
    return None


def valuation_bl(ctx):
    """Broker-level: after EVERY quote of an adverse path the non-raising valuation must equal
    the ledger (so it is current, not the value at the last settlement) and the raising
    one must signal end-of-episode iff that value is <= 0 - also through holdings_weights
    and context."""
    from tradingenv.broker.broker import Broker
    from tradingenv.broker.trade import Trade
    rng = ctx.rng
    fees = BrokerFees(proportional=rng.choice([0, 1e-4]))
    t = datetime(2020, 1, 1)
    ex = gen.new_exchange(t, fees)
    dep = rng.choice([100.0, 1e5])
    b = Broker(ex, deposit=dep, fees=fees)
    led = Ledger(dep, fees)
    cs = rng.sample([ETF("A"), ES(2021, 3), gen.UserFuture("F", 5.0, 0.1), gen.SpotMult("L10", 10.0), gen.UserSpot("U3", 3.0), gen.AssetFuture("AF", 20, 0.2)], rng.randint(1, 2))
    mid = {}
    for c in cs:
        mid[c] = rng.choice([16.0, 100.0, 3000.0, 1e-6, 2e-7])        # (incl. micro-priced contracts: moves below 1e-7)
        if mid[c] < 1e-3:
            ctx.cat("broker-level:micro-priced-contract")
        ex.process_EventNBBO(EventNBBO(t, c, mid[c], mid[c]))
        led.quote(c, mid[c], mid[c])
        lev = rng.choice([-1, 1]) * rng.uniform(1.5, 4.0) / len(cs)
        q = lev * dep / (mid[c] * c.multiplier)
        b.transact(Trade(t, c, q, mid[c], mid[c], fees))
        led.trade(c, q, mid[c])
    crossed = False
    for c in cs:
        if gen.is_margined(c) and led.pos[c] < 0 and rng.random() < 0.5:
            # a short's best case first: the quote collapses to exactly 0 and the account is valued there (the
            # posted margin is then 0) - the rally that follows must still be charged in full
            ex.process_EventNBBO(EventNBBO(t, c, 0.0, 0.0))
            led.quote(c, 0.0, 0.0)
            v0 = b.net_liquidation_value(False)
            ctx.check("C09:nonraising-valuation-is-current", abs(v0 - led.nlv()) <= 1e-9 * led.scale(), got=v0, want=led.nlv(),
                      step="zero-quote")
            ctx.cat("short-valued-at-zero-quote-before-rally")
    for step in range(rng.randint(4, 12)):
        c = rng.choice(cs)
        # drift against the position
        adverse = -1 if led.pos[c] > 0 else 1
        mid[c] *= math.exp(adverse * abs(rng.gauss(0.08, 0.08)))
        ex.process_EventNBBO(EventNBBO(t, c, mid[c], mid[c]))
        led.quote(c, mid[c], mid[c])
        order = rng.random() < 0.5
        if order:
            v = b.net_liquidation_value(False)
        try:
            b.net_liquidation_value()
            raised = False
        except EndOfEpisodeError:
            raised = True
        if not order:
            v = b.net_liquidation_value(False)
        want = led.nlv()
        ctx.check("C09:nonraising-valuation-is-current", abs(v - want) <= 1e-9 * led.scale(), got=v, want=want, step=step,
                  queried_first=order)
        ctx.check("C09:valuation-raises-iff-nonpositive", raised == (v <= 0), value=v, raised=raised, at="broker-level")
        for name, fn in (("weights", b.holdings_weights), ("context", b.context)):
            try:
                fn()
                r2 = False
            except EndOfEpisodeError:
                r2 = True
            ctx.check("C09:valuation-raises-iff-nonpositive", r2 == (v <= 0), value=v, raised=r2, at=name)
        crossed = crossed or v <= 0
    ctx.cat("broker-level", "broker-level:" + ("insolvent" if crossed else "solvent"))
    ctx.nontrivial = crossed
    ctx.sample = {"broker_level": True, "contracts": [gen.describe_contract(c) for c in cs], "deposit": dep}


def interest_ruin(ctx):
    """The account is still (barely) solvent when the step ends, but the interest charged on its
    borrowed cash for the elapsed period - booked when the next decision arrives - takes NLV to <= 0:
    that decision must execute nothing."""
    from vf.epl import interest_ref
    rng = ctx.rng
    c = ETF("A")
    markup = rng.choice([0.03, 0.05, 0.1])
    fees = BrokerFees(markup=markup)
    N0 = rng.choice([1e3, 1e5])
    p0 = rng.choice([16.0, 100.0])
    Q = 2.0 * N0 / p0                      # 2x leveraged: cash = -N0 after the purchase
    n = 6
    t0 = datetime(2020, 6, 1, 12)
    grid = [t0 + timedelta(days=k) for k in range(n)]
    jr = rng.choice([1, 2, 3])             # the price drops in the non-latent batch of step jr
    day = (1 + markup) ** (1 / 365) - 1
    # cash after jr+1 daily charges, then the price at which NLV = frac x (next day's interest)
    cash = -N0 * (1 + day) ** jr          # decisions 1..jr have each charged one day before the drop
    frac = rng.choice([0.2, 0.5, 0.9])
    nlv_target = frac * (-cash) * day
    p_drop = (nlv_target - cash) / Q
    evs = [EventNBBO(t, c, (p0 if k <= jr else p_drop), (p0 if k <= jr else p_drop)) for k, t in enumerate(grid)]
    tr = Transmitter(grid)
    tr.add_events(evs)
    sink = ep.Sink()
    env = TradingEnv(action_space=BoxPortfolio([c], -10 * Q, 10 * Q, as_weights=False), transmitter=tr, state=ep.Rec(sink),
                     reward=RewardPnL(), broker_fees=fees, initial_cash=N0)
    sink.env = env
    led = Ledger(N0, fees)
    cursor = [0]
    last_reb_time = [None]
    refused_seen = False
    with ep.EpMonitor(sink) as mon:
        env.reset()
        for k in range(n - 1):
            target = Q if k <= jr else Q / 2          # after the drop the policy tries to sell half
            cash_before = env.broker.holdings_quantity.get(Cash(), 0.0)
            tx0, n0 = mon.n_transact, len(env.broker.track_record)
            h0 = {x: y for x, y in env.broker.holdings_quantity.items() if not isinstance(x, Cash)}
            exc = None
            try:
                out = env.step(np.array([target]))
            except EndOfEpisodeError as e:
                exc = e
            dec = None
            while cursor[0] < len(sink.log):
                x = sink.log[cursor[0]]
                cursor[0] += 1
                if x[0] == "M" and isinstance(x[5], EventNBBO):
                    led.quote(x[5].contract, x[5].bid_price, x[5].ask_price)
                elif x[0] == "REB":
                    secs = (x[2] - last_reb_time[0]).total_seconds() if last_reb_time[0] else 0.0
                    led.interest += interest_ref(cash_before, 0.0, markup, secs) if secs else 0.0
                    last_reb_time[0] = x[2]
                    dec = led.nlv()
                elif x[0] == "TX":
                    led.trade(x[5].contract, x[5].quantity, x[5].acq_price, x[5].cost_of_commissions)
            if dec is not None and dec <= 0:
                refused_seen = True
                h1 = {x: y for x, y in env.broker.holdings_quantity.items() if not isinstance(x, Cash)}
                ctx.check("C09:insolvent-decision-trades-nothing", mon.n_transact == tx0 and h1 == h0 and
                          len(env.broker.track_record) == n0, step=k, decision_nlv=dec, transacts=mon.n_transact - tx0,
                          scenario="interest-ruin")
                if exc is not None:
                    key = classify_escape(exc)
                    if key:
                        ctx.finding(key, step=k, scenario="interest-ruin")
                    else:
                        ctx.violation("C09:step-failed", step=k, error=repr(exc)[:200])
                break
            if exc is not None:
                ctx.violation("C09:step-failed", step=k, error=repr(exc)[:200], decision_nlv=dec, scenario="interest-ruin")
                return
            v = env.broker.net_liquidation_value(False)
            ctx.check("C09:ledger-agrees", abs(v - led.nlv()) <= 1e-9 * led.scale(), broker=v, ledger=led.nlv(), at="interest-ruin-%d" % k)
    ctx.check("C09:interest-ruin-reached", refused_seen, frac=frac, markup=markup)
    ctx.cat("scenario:interest-ruin")
    ctx.nontrivial = True
    ctx.sample = {"scenario": "interest-ruin", "markup": markup, "deposit": N0, "drop_after_step": jr, "price_after_drop": p_drop,
                  "nlv_after_drop_in_days_of_interest": frac}


def case(ctx, i, tier):
    if i % 12 == 11:
        return interest_ruin(ctx)
    if i % 6 == 5:
        return valuation_bl(ctx)
    rng = ctx.rng
    kind = ["spot-long", "spot-short", "margined"][i % 3]
    severity = ["exact-zero", "below", "far-below", "control"][(i // 3) % 4]
    where = POSITIONS[(i // 12) % 2]
    rw = [RewardPnL(), RewardLogReturn(), LogReturn(scale=0.01, clip=2., risk_aversion=0.1), RewardSimpleReturn()][(i // 24) % 4]
    exact = severity == "exact-zero"
    fees = BrokerFees() if exact or rng.random() < 0.5 else BrokerFees(proportional=rng.choice([1e-4, 1e-3]))
    spread = 0.0 if exact or rng.random() < 0.5 else rng.choice([1e-4, 1e-3])
    if kind == "margined":
        c = gen.UserFuture("F", 4.0, 0.25) if exact else rng.choice([ES(2021, 3), gen.UserFuture("F", 5.0, rng.choice([0.05, 0.3]))])
        w = rng.choice([-2.0, 2.0]) if exact else rng.choice([-1, 1]) * rng.uniform(1.5, 1.0 / c.margin_requirement * 0.9)
    elif kind == "spot-long":
        c = ETF("A")
        w = 2.0 if exact else rng.uniform(1.2, 5.0)
    else:
        c = ETF("A")
        w = -1.0 if exact else rng.uniform(-3.0, -0.3)
    p0 = 16.0 if exact else rng.choice([16.0, 100.0, 3000.0])
    cash0 = 1024.0 if exact else rng.choice([100.0, 1e5])
    # price at which NLV hits 0:  N0 * (1 + w (p/p0 - 1)) = 0
    p_zero = p0 * (1 - 1 / w)
    if severity == "exact-zero":
        p_ruin = p_zero
    elif severity == "below":
        p_ruin = p_zero * (1 - 0.02) if w > 0 else p_zero * 1.02
    elif severity == "far-below":
        p_ruin = p_zero * 0.5 if w > 0 else p_zero * 2.5
    else:
        p_ruin = p0 + 0.8 * (p_zero - p0)
    n = 7
    L = 60
    t0 = datetime(2020, 6, 1, 12)
    grid = [t0 + timedelta(days=k) for k in range(n)]
    jo = rng.choice([0, 0, 1, 2])               # decision that opens the position
    jr = jo + rng.choice([1, 2]) if where == "latent" else jo + rng.choice([0, 0, 1])
    first = (jr == 0) or (jo == 0 and where == "nonlatent" and jr == 0)
    t_ruin = grid[jr] + timedelta(seconds=30) if where == "latent" else grid[jr + 1]
    evs = []
    times = sorted(set(grid + [t_ruin] + [g + timedelta(seconds=30) for g in grid[:-1] if rng.random() < 0.3]))
    for t in times:
        p = p_ruin if t >= t_ruin else p0
        evs.append(EventNBBO(t, c, p * (1 - spread / 2), p * (1 + spread / 2)))
    tr = Transmitter(grid)
    tr.add_events(evs)
    sink = ep.Sink()
    lo, hi = (-(abs(w) + 1.0), abs(w) + 1.0) if kind == "margined" else (-3.0, 5.0)
    ghost = rng.random() < 0.3        # one more contract in the space that is never quoted: a decision with weight on it is refused
    space_cs = [c] + ([ETF("NEVER_QUOTED")] if ghost else [])
    jb = rng.randint(0, max(jr - 1, 0)) if ghost else None      # a refused decision early in the episode, before the ruin
    env = TradingEnv(action_space=BoxPortfolio(space_cs, lo, hi), transmitter=tr, state=ep.Rec(sink), reward=rw, latency=L,
                     broker_fees=fees, initial_cash=cash0)
    if ghost:
        ctx.cat("a-decision-refused-earlier-in-the-episode")
    other = None
    if kind == "margined" and rng.random() < 0.35:
        # ANOTHER environment, with data of its own, trades the same future at other prices and is stepped in between
        # the steps of the one under test (a training and an evaluation environment in one process)
        p_other = p0 * rng.choice([0.6, 1.5])
        tr_o = Transmitter(grid)
        tr_o.add_events([EventNBBO(t_, c, p_other, p_other) for t_ in grid])
        other = TradingEnv(action_space=BoxPortfolio([c], lo, hi), transmitter=tr_o, initial_cash=cash0)
        other.reset()
        other_done = False
        ctx.cat("another-environment-trades-the-same-future")
    sink.env = env
    ctx.cat(kind, "ruin:" + where, "severity:" + severity, "first-step" if jr == 0 else "later-step",
            "reward:" + type(rw).__name__)
    ctx.sample = {"instrument": gen.describe_contract(c), "weight": w, "p0": p0, "ruin_price": p_ruin, "ruin_at": where,
                  "open_decision": jo, "ruin_decision": jr, "severity": severity, "reward": type(rw).__name__,
                  "spread": spread, "fee": fees.proportional, "cash0": cash0}
    ctx.nontrivial = severity != "control"
    led = Ledger(cash0, fees)
    pos = [0]                  # log cursor
    state = {"dec_nlv": None}

    def consume():
        """Feed new log entries to the ledger; returns NLV at the decision (REB) if one was logged."""
        dec = None
        while pos[0] < len(sink.log):
            x = sink.log[pos[0]]
            pos[0] += 1
            if x[0] == "M" and isinstance(x[5], EventNBBO):
                led.quote(x[5].contract, x[5].bid_price, x[5].ask_price)
            elif x[0] == "REB":
                dec = led.nlv()
            elif x[0] == "TX":
                t_ = x[5]
                led.trade(t_.contract, t_.quantity, t_.acq_price, t_.cost_of_commissions)
        return dec

    def valuation_clause(tag):
        v = env.broker.net_liquidation_value(False)
        try:
            env.broker.net_liquidation_value()
            raised = False
        except EndOfEpisodeError:
            raised = True
        ctx.check("C09:valuation-raises-iff-nonpositive", raised == (v <= 0), value=v, raised=raised, at=tag)
        tol = 1e-9 * led.scale()
        ctx.check("C09:ledger-agrees", abs(v - led.nlv()) <= tol, broker=v, ledger=led.nlv(), at=tag)
        return v

    with ep.EpMonitor(sink) as mon:
        n_episodes = 2 if rng.random() < 0.4 else 1
        if n_episodes == 2:
            # the SAME scenario is played a second time on the same environment (backtest twice, multi-episode
            # training): the ruinous quote must reach the second episode as it reached the first
            ctx.cat("second-episode-on-same-environment")
        for episode_nr in range(n_episodes):
            led = Ledger(cash0, fees)
            pos[0] = 0
            del sink.log[:]
            env.reset()
            consume()
            ended = False
            became_insolvent = False
            k = 0
            calls_after_end = 0
            while k < n + 3 and calls_after_end < 2:
                a = np.array([w if k >= jo else 0.0] + ([0.0] if ghost else []))
                if ghost and k == jb and episode_nr == 0 and not ended and not became_insolvent:
                    # refused while its trades are computed (weight on the unquoted contract); the caller catches the
                    # error and decides again - the episode and every later valuation behave as if it had not happened
                    try:
                        env.step(np.array([a[0], 0.2]))
                    except Exception:
                        pass
                    consume()
                if other is not None and not other_done and episode_nr == 0:
                    try:
                        other_done = other.step(np.array([rng.choice([-0.5, 0.5])]))[2]
                    except Exception:
                        other_done = True
                    AbstractContract.now = env.now() or AbstractContract.now
                h0 = env.broker.holdings_quantity
                n0 = len(env.broker.track_record)
                tx0 = mon.n_transact
                ev0 = len([x for x in sink.log if x[0] == "M"])
                exc = None
                out = None
                try:
                    out = env.step(a)
                except BaseException as e:   # noqa
                    exc = e
                dec = consume()
                v = valuation_clause("after-step-%d" % k)
                insolvent_now = v <= 0
                if ended:
                    calls_after_end += 1
                    ok = isinstance(exc, EndOfEpisodeError) and mon.n_transact == tx0 and len(env.broker.track_record) == n0 \
                        and env.broker.holdings_quantity == h0 and len([x for x in sink.log if x[0] == "M"]) == ev0
                    ctx.check("C09:refused-after-end", ok, step=k, outcome=repr(exc) if exc else "returned", transacts=mon.n_transact - tx0)
                    k += 1
                    continue
                dec_insolvent = dec is not None and dec <= 0
                if where == "latent" and severity != "control" and k == jr and not became_insolvent:
                    # (decided from the DATA: the ruinous quote is stamped 30 s after timestep jr, inside the latency, so
                    #  it front-runs decision jr - in every episode played on this scenario)
                    ctx.check("C09:latent-ruin-front-runs-decision", dec_insolvent, episode=episode_nr, step=k, decision_nlv=dec)
                if dec_insolvent:
                    ctx.check("C09:insolvent-decision-trades-nothing",
                              mon.n_transact == tx0 and len(env.broker.track_record) == n0 and
                              {x: y for x, y in env.broker.holdings_quantity.items() if not isinstance(x, Cash)} ==
                              {x: y for x, y in h0.items() if not isinstance(x, Cash)},
                              step=k, decision_nlv=dec, transacts=mon.n_transact - tx0, records=len(env.broker.track_record) - n0)
                    if exact:
                        ctx.check("C09:exact-zero-is-insolvent", dec == 0.0, decision_nlv=dec)
                if exc is not None:
                    key = classify_escape(exc)
                    if key and insolvent_now:
                        ctx.finding(key, step=k, where=where, severity=severity, reward=type(rw).__name__, nlv=v)
                    else:
                        ctx.violation("C09:step-failed", step=k, error=repr(exc)[:200],
                                      tb=[(f.filename[-30:], f.name) for f in traceback.extract_tb(exc.__traceback__)][-6:])
                        return
                    if dec_insolvent:
                        ended = True
                else:
                    done = out[2]
                    if insolvent_now and not became_insolvent:
                        ctx.check("C09:ruining-step-reports-done", done is True, step=k, nlv=v)
                    if dec_insolvent:
                        ctx.check("C09:insolvent-decision-ends-episode", done is True, step=k)
                    if done:
                        ended = True
                became_insolvent = became_insolvent or insolvent_now
                k += 1
            if severity != "control":
                # (decided from the DATA, not from what was delivered: the scenario's ruinous quote exists in every
                #  episode played on it)
                ctx.check("C09:ruinous-quote-takes-effect", became_insolvent, episode=episode_nr, where=where, severity=severity)
            if severity == "control":
                ctx.check("C09:control-stays-solvent", not became_insolvent and exc is None or ended, became_insolvent=became_insolvent)
        # reset re-enables stepping
        del sink.log[:]
        pos[0] = 0
        env.reset()
        try:
            o, r, d, info = env.step(np.array([0.0] + ([0.0] if ghost else [])))
            ctx.check("C09:reset-reenables", True)
        except BaseException as e:  # noqa
            ctx.violation("C09:reset-reenables", error=repr(e)[:200])
