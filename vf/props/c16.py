"""C16 - performance metrics equal their definitions and are scale-invariant (engine MET)."""
import math
from datetime import datetime, timedelta

import numpy as np
import pandas as pd

import tradingenv.metrics  # noqa: installs the pandas methods

PROP = "C16"
LEVEL = "exploration"
ENGINE = "MET"
N = {"quick": 1000, "thorough": 50000}
TIME = {"quick": 300, "thorough": 480}
RULE = ("Random valid level Series and 1-3-column DataFrames: length 2-2000, daily / business-daily / intraday (several observations "
        "per day) / irregular indices spanning >= 1 day, level scales 1e-3..1e6, daily volatility >= 1e-4, with float or series "
        "risk-free and a benchmark. Every listed metric (returns, CAGR, volatility, drawdown series, max drawdown, VaR, ES, downside/"
        "upside volatility, Sharpe, Sortino, Calmar, Martin risk/ratio, tracking error) is compared with a pure-Python reference "
        "(math.fsum, own linear-interpolation quantile, ddof 1, 252 trading days, 365-day years, last observation per calendar day); "
        "structural clauses (drawdown in (-1,0], 0 at running maxima, (1+CAGR)^years == last/first); scale invariance: x2^k "
        "bit-identical, x c for random c>0 within tolerance; TrackRecord.tearsheet() of a real episode equals the individual metrics. "
        "Systematic part: every single-defect corruption {NaN, 0, negative, duplicated index entry, unsorted (swapped / reversed / rotated), RangeIndex, string index, "
        "NaT} x every listed metric applied to self and to the other/risk_free argument must raise. Non-trivial = length >= 5 with "
        "both positive and negative returns (or any corruption case).")
ASSUMPTIONS = ["CAPM alpha/beta and omega are not in the property's list and are not judged",
               "relative tolerance 1e-9 (1e-7 for ratios of near-zero denominators)"]
REQUIRED = ["C16:returns", "C16:cagr", "C16:volatility", "C16:drawdown", "C16:max-drawdown", "C16:var", "C16:expected-shortfall",
            "C16:downside-volatility", "C16:upside-volatility", "C16:sharpe", "C16:sortino", "C16:calmar", "C16:martin",
            "C16:tracking-error", "C16:scale-pow2-bit-identical", "C16:scale-positive", "C16:cagr-structural",
            "C16:drawdown-structural", "C16:corruption-rejected", "C16:frame-columns", "C16:tearsheet"]
REQUIRED_CATS = ["index-unit-not-microseconds:intraday", "measured-then-edited-in-place", "index:tz-intraday", "tied-returns", "plateau", "index:D", "index:B", "index:intraday", "index:irregular", "frame", "series"]
TECHNIQUE = "runtime monitoring: pure-Python reference implementation of the textbook definitions compared on generated level series; corruption matrix enumerated"
LEVEL_TEXT = ("Exploration against an independent pure-Python reference of every listed metric, with exact (power-of-two) and "
              "approximate scale-invariance twins and a fully enumerated single-defect corruption matrix.")
LEVEL_NOTE = ("Trusted: the reference (fsum-based). Mutation audit: ddof 0, 365<->252, cummin, intraday not collapsed, duplicate check "
              "dropped, quantile method, ES tail '<' are caught.")

BDAYS = 252


# ---- reference ----------------------------------------------------------- #
def collapse(levels, dates):
    d = {}
    for t, v in zip(dates, levels):
        d[t.date()] = v
    ks = sorted(d)
    return ks, [d[k] for k in ks]


def std(x):
    if len(x) < 2:
        return float("nan")
    m = math.fsum(x) / len(x)
    return math.sqrt(math.fsum((a - m) ** 2 for a in x) / (len(x) - 1))


def quantile(x, p):
    if not x:
        return float("nan")
    s = sorted(x)
    h = (len(s) - 1) * p
    lo, hi = math.floor(h), math.ceil(h)
    return s[lo] + (s[hi] - s[lo]) * (h - lo)


def ref(levels, dates, other=None, rf=0.0):
    ks, L = collapse(levels, dates)
    r = [L[j] / L[j - 1] - 1 for j in range(1, len(L))]
    days = (dates[-1] - dates[0]).days
    out = {"ret": r, "ret_index": ks[1:]}
    years = days / 365
    out["years"] = years
    out["cagr"] = (L[-1] / L[0]) ** (1 / years) - 1
    out["vol"] = math.sqrt(BDAYS) * std(r)
    mx = -1e300
    dd = []
    for v in L:
        mx = max(mx, v)
        dd.append(v / mx - 1)
    out["dd"] = dd
    out["mdd"] = min(dd)
    out["var"] = quantile(r, 0.025)
    tail = [a for a in r if a <= out["var"]]
    out["es"] = math.fsum(tail) / len(tail) if tail else float("nan")
    out["dvol"] = math.sqrt(BDAYS) * std([a for a in r if a < 0])
    out["uvol"] = math.sqrt(BDAYS) * std([a for a in r if a > 0])
    out["martin"] = math.sqrt(math.fsum(a * a for a in dd) / len(dd))
    ex = out["cagr"] - rf

    def div(a, b):
        if b != b or a != a:
            return float("nan")
        if b == 0:
            return float("nan") if a == 0 else math.copysign(float("inf"), a) * (1 if not math.copysign(1, b) < 0 else -1)
        return a / b

    out["sharpe"] = div(ex, out["vol"])
    out["sortino"] = div(ex, out["dvol"])
    out["calmar"] = div(ex, -out["mdd"])
    out["martin_ratio"] = div(ex, out["martin"])
    return out


def close(a, b, tol=1e-9):
    a, b = float(a), float(b)
    if a != a and b != b:
        return True
    if math.isinf(a) or math.isinf(b):
        return a == b
    return abs(a - b) <= tol * max(1.0, abs(a), abs(b))


def bitsame(a, b):
    a, b = float(a), float(b)
    return a == b or (a != a and b != b)


def make_index(r, n):
    kind = r.choice(["D", "B", "intraday", "irregular", "tz-intraday"])
    if kind == "tz-intraday":
        # timezone-aware, two marks per LOCAL day that straddle UTC midnight (08:00 and 16:00 in Tokyo)
        days = pd.date_range("2015-01-01", periods=(n + 1) // 2, freq="D")
        stamps = sorted([d + pd.Timedelta(hours=8) for d in days] + [d + pd.Timedelta(hours=16) for d in days])[:n]
        return kind, pd.DatetimeIndex(stamps).tz_localize(r.choice(["Asia/Tokyo", "Australia/Sydney", "America/Los_Angeles"]))
    if kind == "D":
        idx = pd.date_range("2015-01-01", periods=n, freq="D")
    elif kind == "B":
        idx = pd.date_range("2015-01-01", periods=n, freq="B")
    elif kind == "intraday":
        idx = pd.date_range("2015-01-01 09:00", periods=n, freq=r.choice(["7h", "5h", "90min", "11h"]))
    else:
        idx = pd.DatetimeIndex(sorted({pd.Timestamp("2015-01-01") + pd.Timedelta(seconds=r.randint(0, 86400 * n * 2))
                                       for _ in range(n)}))
    if r.random() < 0.3:
        # the same instants stored at another resolution (nanoseconds from parquet / older pandas, seconds from numpy)
        idx = idx.as_unit(r.choice(["ns", "ns", "s", "ms"]))
        UNIT[0] = True
    return kind, idx


UNIT = [False]
METRICS = ["cagr", "volatility", "max_drawdown", "value_at_risk", "expected_shortfall", "downside_volatility",
           "upside_volatility", "martin_risk", "sharpe_ratio", "sortino_ratio", "calmar_ratio", "martin_ratio"]


def series_case(ctx):
    r, nr = ctx.rng, ctx.nrng
    n = r.choice([2, 3, 5, 10, 50, 50, 400, 400, 2000 if r.random() < 0.3 else 100]) if r.random() < 0.9 else r.randint(2, 60)
    UNIT[0] = False
    kind, idx = make_index(r, n)
    if UNIT[0]:
        ctx.cat("index-unit-not-microseconds" + (":intraday" if kind in ("intraday", "irregular") else ""))
    if len(idx) < 2 or (idx[-1] - idx[0]).days < 1:
        ctx.cat("skipped-span-below-one-day")
        return
    n = len(idx)
    sigma = r.choice([1e-4, 0.01, 0.05])
    scale = r.choice([1e-3, 1, 1e6])
    lev = 100 * np.exp(np.cumsum(nr.normal(0, sigma, n))) * scale
    if r.random() < 0.15 and n >= 4:
        # tied returns: levels that only halve, stay or double give returns that are exactly
        # -0.5, 0 or 1 (binary-exact), so quantiles fall inside groups of tied observations
        # (a mostly-in-cash track record looks like this)
        mult = nr.choice([0.5, 1.0, 1.0, 1.0, 1.0, 1.0, 2.0], size=n)
        if r.random() < 0.5:
            mult = np.where(nr.random(n) < 0.6, 1.0, mult)
        # (exponent kept within +-25 so that level / running-max stays above 2^-50: below 2^-53,
        #  level/max - 1 rounds to exactly -1 although the level is positive)
        expo = np.clip(np.cumsum(np.log2(mult)), -25, 25)
        lev = 100.0 * scale * np.exp2(expo)
        ctx.cat("tied-returns")
    elif r.random() < 0.25 and n >= 4:
        # plateaus: exactly repeated levels give returns that are exactly zero
        for _ in range(r.randint(1, 3)):
            j = r.randrange(1, n)
            lev[j] = lev[j - 1]
        ctx.cat("plateau")
    ser = pd.Series(lev, idx, name="s")
    if r.random() < 0.3 and n >= 3:
        # the SAME object was measured before, when one of its levels was still different (a provisional value
        # corrected in place, a live record): what counts is what the object holds when it is measured
        k_ = r.randrange(n)
        ser.iloc[k_] = lev[k_] * r.choice([1.37, 0.6])
        with np.errstate(all="ignore"):
            ser.volatility(), ser.max_drawdown(), ser.cagr(), ser.simple_returns(), ser.drawdown()
        ser.iloc[k_] = lev[k_]
        ctx.cat("measured-then-edited-in-place")
    dates = list(idx.to_pydatetime())
    rf = r.choice([0.0, 0.01, "series"])
    if rf == "series":
        rf_ser = pd.Series(np.exp(np.cumsum(np.abs(nr.normal(0, 1e-4, n)))), idx, name="rf")
        rf_val = ref(list(rf_ser.values), dates)["cagr"]
        rf_arg = rf_ser
    else:
        rf_val, rf_arg = rf, rf
    R = ref(list(lev), dates, rf=rf_val)
    ctx.cat("series", "index:" + kind, "n:%d" % (n if n in (2, 3, 5) else 10 ** int(math.log10(n))))
    sr = ser.simple_returns()
    ctx.check("C16:returns", len(sr) == len(R["ret"]) and all(close(a, b) for a, b in zip(sr.values, R["ret"])) and
              [pd.Timestamp(x).date() for x in sr.index] == R["ret_index"], n=n, kind=kind)
    lr = ser.log_returns()
    ctx.check("C16:returns", len(lr) == len(R["ret"]) and all(close(a, math.log1p(b), 1e-9) for a, b in zip(lr.values, R["ret"])), log=True)
    ctx.check("C16:cagr", close(ser.cagr(), R["cagr"]), got=float(ser.cagr()), want=R["cagr"], kind=kind, n=n)
    ks, L = collapse(list(lev), dates)
    g = 1 + float(ser.cagr())
    if 1e-4 <= g < 1e300:
        # (well-conditioned only: for 1+CAGR ~ 1e-20 the float CAGR cannot carry the information, and a one-day
        #  series that gains a factor 8 has a CAGR of 8^365 - beyond the float range, i.e. inf)
        ctx.check("C16:cagr-structural", close(g ** R["years"], L[-1] / L[0], 1e-9 + 1e-15 * R["years"] / g), years=R["years"],
                  got=g ** R["years"], want=L[-1] / L[0])
    ctx.check("C16:volatility", close(ser.volatility(), R["vol"]), got=float(ser.volatility()), want=R["vol"], kind=kind, n=n)
    dd = ser.drawdown().values
    ctx.check("C16:drawdown", len(dd) == len(R["dd"]) and all(close(a, b) for a, b in zip(dd, R["dd"])), kind=kind)
    ks, L = collapse(list(lev), dates)
    run = np.maximum.accumulate(np.array(L))
    ctx.check("C16:drawdown-structural", bool(np.all(dd <= 0) and np.all(dd > -1) and np.all(dd[np.array(L) == run] == 0)))
    ctx.check("C16:max-drawdown", close(ser.max_drawdown(), R["mdd"]), got=float(ser.max_drawdown()), want=R["mdd"])
    ctx.check("C16:var", close(ser.value_at_risk(), R["var"]), got=float(ser.value_at_risk()), want=R["var"])
    q = r.choice([0.05, 0.02, 0.1])
    ctx.check("C16:var", close(ser.value_at_risk(q), quantile(R["ret"], q)), quantile=q)
    ctx.check("C16:expected-shortfall", close(ser.expected_shortfall(), R["es"]), got=float(ser.expected_shortfall()), want=R["es"])
    ctx.check("C16:downside-volatility", close(ser.downside_volatility(), R["dvol"]), got=float(ser.downside_volatility()), want=R["dvol"])
    ctx.check("C16:upside-volatility", close(ser.upside_volatility(), R["uvol"]), got=float(ser.upside_volatility()), want=R["uvol"])
    ctx.check("C16:martin", close(ser.martin_risk(), R["martin"]), got=float(ser.martin_risk()), want=R["martin"])
    with np.errstate(all="ignore"):
        for name, key in (("sharpe", "sharpe"), ("sortino", "sortino"), ("calmar", "calmar"), ("martin", "martin_ratio")):
            got = float(getattr(ser, {"sharpe": "sharpe_ratio", "sortino": "sortino_ratio", "calmar": "calmar_ratio",
                                      "martin": "martin_ratio"}[name])(rf_arg))
            want = R[key]
            if math.isinf(want) or math.isinf(got) or want != want or got != got:
                okr = (want != want and got != got) or got == want or (math.isinf(got) and math.isinf(want))
            else:
                okr = close(got, want, 1e-7)
            ctx.check("C16:" + name, okr, got=got, want=want, rf=rf_val)
    # tracking error against a benchmark
    bench = pd.Series(100 * np.exp(np.cumsum(nr.normal(0, sigma, n))), idx, name="b")
    Rb = ref(list(bench.values), dates)
    te = math.sqrt(BDAYS) * std([a - b for a, b in zip(R["ret"], Rb["ret"])])
    if len(R["ret"]) < 2:
        ctx.cat("tracking-error-single-return")
    ctx.check("C16:tracking-error", close(ser.tracking_error(bench), te), got=float(ser.tracking_error(bench)), want=te)
    # scale invariance
    k2 = r.randint(-20, 20)
    s2 = ser * 2.0 ** k2
    c = 10 ** r.uniform(-4, 4)
    sc = ser * c
    with np.errstate(all="ignore"):
        for name in METRICS:
            a = getattr(ser, name)()
            ctx.check("C16:scale-pow2-bit-identical", bitsame(a, getattr(s2, name)()), metric=name, k=k2, a=float(a),
                      b=float(getattr(s2, name)()))
            b = float(getattr(sc, name)())
            okc = close(a, b, 1e-7) or (math.isinf(float(a)) and math.isinf(b)) or \
                (abs(float(a)) > 1e6 and abs(b) > 1e6)
            ctx.check("C16:scale-positive", okc, metric=name, c=c, a=float(a), b=b)
        ctx.check("C16:scale-pow2-bit-identical", np.array_equal(ser.drawdown().values, s2.drawdown().values) and
                  np.array_equal(ser.simple_returns().values, s2.simple_returns().values), metric="series")
    pos = sum(1 for a in R["ret"] if a > 0)
    neg = sum(1 for a in R["ret"] if a < 0)
    ctx.nontrivial = n >= 5 and pos > 0 and neg > 0
    ctx.sample = {"kind": kind, "n": n, "sigma": sigma, "scale": scale, "risk_free": rf if rf != "series" else "series",
                  "first_levels": [float(x) for x in lev[:5]], "first_index": [str(x) for x in idx[:3]]}


def frame_case(ctx):
    r, nr = ctx.rng, ctx.nrng
    n = r.choice([3, 10, 50, 400])
    UNIT[0] = False
    kind, idx = make_index(r, n)
    if UNIT[0]:
        ctx.cat("index-unit-not-microseconds" + (":intraday" if kind in ("intraday", "irregular") else ""))
    if len(idx) < 2 or (idx[-1] - idx[0]).days < 1:
        ctx.cat("skipped-span-below-one-day")
        return
    n = len(idx)
    m = r.randint(1, 3)
    lev = 100 * np.exp(np.cumsum(nr.normal(0, 0.01, [n, m]), 0))
    df = pd.DataFrame(lev, idx, columns=["c%d" % j for j in range(m)])
    dates = list(idx.to_pydatetime())
    ctx.cat("frame", "index:" + kind)
    with np.errstate(all="ignore"):
        got = {name: getattr(df, name)() for name in ["cagr", "volatility", "max_drawdown", "value_at_risk", "expected_shortfall",
                                                      "downside_volatility", "upside_volatility", "martin_risk"]}
        sh = df.sharpe_ratio(0.01)
        for j, col in enumerate(df.columns):
            R = ref(list(lev[:, j]), dates, rf=0.01)
            ok = all(close(got[name][col], R[key]) for name, key in [
                ("cagr", "cagr"), ("volatility", "vol"), ("max_drawdown", "mdd"), ("value_at_risk", "var"),
                ("expected_shortfall", "es"), ("downside_volatility", "dvol"), ("upside_volatility", "uvol"), ("martin_risk", "martin")])
            ok = ok and (close(sh[col], R["sharpe"], 1e-7) or (R["sharpe"] != R["sharpe"]))
            ctx.check("C16:frame-columns", ok, column=col, kind=kind, n=n)
    ctx.nontrivial = n >= 5
    ctx.sample = {"frame": True, "kind": kind, "n": n, "columns": m}


_TS_CACHE = {}


def tearsheet_case(ctx):
    """TrackRecord.tearsheet() of a real episode equals the individual metrics."""
    from tradingenv.env import TradingEnv
    from tradingenv.contracts import ETF
    from tradingenv.spaces import BoxPortfolio
    r, nr = ctx.rng, ctx.nrng
    n = r.randint(30, 120)
    idx = pd.date_range("2020-01-01", periods=n, freq="B")
    P = pd.DataFrame(100 * np.exp(np.cumsum(nr.normal(0, 0.01, [n, 2]), 0)), idx, columns=[ETF("A"), ETF("B")])
    env = TradingEnv(action_space=BoxPortfolio([ETF("A"), ETF("B")]), prices=P)
    env.reset()
    done = False
    w = np.array([r.uniform(0.1, 0.6), r.uniform(0.1, 0.4)])
    k = 0
    while not done and k < n + 2:
        o, rw, done, info = env.step(w)
        k += 1
    trk = env.broker.track_record
    ts = trk.tearsheet()
    nlv = trk.net_liquidation_value()
    col = ts.columns[0]
    dates = list(nlv.index.to_pydatetime())
    R = ref(list(nlv.iloc[:, 0].values), dates, rf=0.0)
    pairs = [(("Return", "CAGR"), R["cagr"]), (("Risk", "Volatility"), R["vol"]), (("Risk", "Max drawdown"), R["mdd"]),
             (("Risk", "Downside volatility"), R["dvol"]), (("Risk", "Upside volatility"), R["uvol"]),
             (("Risk", "Martin risk"), R["martin"]), (("Risk-adjusted return", "Sharpe ratio"), R["sharpe"]),
             (("Risk-adjusted return", "Sortino ratio"), R["sortino"]), (("Risk-adjusted return", "Calmar ratio"), R["calmar"]),
             (("Risk-adjusted return", "Martin ratio"), R["martin_ratio"]),
             (("Risk", "VaR 5%"), quantile(R["ret"], 0.05)), (("Risk", "VaR 2%"), quantile(R["ret"], 0.02))]
    ok = True
    bad = None
    for key, want in pairs:
        got = float(ts.loc[key, col])
        if not (close(got, want, 1e-7) or (got != got and want != want)):
            ok, bad = False, (key, got, want)
    ctx.check("C16:tearsheet", ok, mismatch=bad)
    ctx.cat("tearsheet")
    ctx.nontrivial = True
    ctx.sample = {"tearsheet": True, "steps": k, "weights": [float(x) for x in w]}


# ---- corruption matrix (systematic) --------------------------------------- #
CORRUPTIONS = ["nan", "zero", "neg", "dup", "unsorted", "rangeidx", "stridx", "nat", "reversed", "rotated"]
METHODS = ["simple_returns", "log_returns", "cagr", "volatility", "drawdown", "max_drawdown", "value_at_risk",
           "expected_shortfall", "downside_volatility", "upside_volatility", "sharpe_ratio", "sortino_ratio", "calmar_ratio",
           "martin_risk", "martin_ratio"]
ROLES = ["self", "other:tracking_error", "self:tracking_error", "risk_free:sharpe_ratio", "risk_free:sortino_ratio",
         "risk_free:calmar_ratio", "risk_free:martin_ratio", "frame-self"]


def corrupt(base, kind, pos):
    s = base.copy()
    n = len(s)
    if kind == "nan":
        s.iloc[pos] = np.nan
    elif kind == "zero":
        s.iloc[pos] = 0.0
    elif kind == "neg":
        s.iloc[pos] = -1.0
    elif kind == "dup":
        s.index = s.index[:pos].append(s.index[pos - 1:pos]).append(s.index[pos + 1:])
    elif kind == "unsorted":
        order = list(range(n))
        order[pos - 1], order[pos] = order[pos], order[pos - 1]
        s = s.iloc[order]
    elif kind == "reversed":
        # the whole record in descending order (a regular index keeps a - negative - frequency)
        s = s.iloc[::-1] if pos % 2 else s.sort_index(ascending=False)
    elif kind == "rotated":
        s = pd.concat([s.iloc[pos:], s.iloc[:pos]])
    elif kind == "rangeidx":
        s = s.reset_index(drop=True)
    elif kind == "stridx":
        s.index = [str(x) for x in s.index]
    elif kind == "nat":
        s.index = s.index[:pos].append(pd.DatetimeIndex([pd.NaT])).append(s.index[pos + 1:])
    return s


def sys_count(tier):
    return len(CORRUPTIONS) * len(ROLES)


def exhaustive(tier):
    return False


def sys_case(ctx, j, tier):
    kind = CORRUPTIONS[j // len(ROLES)]
    role = ROLES[j % len(ROLES)]
    r = ctx.rng
    n = r.choice([4, 10, 60])
    idx = pd.date_range("2015-01-01", periods=n, freq=r.choice(["D", "B"]))
    base = pd.Series(np.linspace(1, 2, n) * np.exp(ctx.nrng.normal(0, 0.01, n)), idx, name="x")
    for pos in sorted({1, n // 2, n - 1}):
        s = corrupt(base, kind, pos)
        calls = []
        if role == "self":
            calls = [(m, (lambda m=m: getattr(s, m)())) for m in METHODS]
        elif role == "frame-self":
            f = s.to_frame("a")
            f["b"] = base.values
            calls = [(m, (lambda m=m: getattr(f, m)())) for m in METHODS]
        elif role == "other:tracking_error":
            calls = [("tracking_error(other)", lambda: base.tracking_error(s))]
        elif role == "self:tracking_error":
            calls = [("tracking_error(self)", lambda: s.tracking_error(base))]
        else:
            m = role.split(":")[1]
            calls = [(m + "(risk_free)", (lambda m=m: getattr(base, m)(s)))]
        for name, fn in calls:
            try:
                with np.errstate(all="ignore"):
                    v = fn()
                ctx.check("C16:corruption-rejected", False, corruption=kind, position=pos, role=role, metric=name,
                          returned=repr(v)[:80])
            except Exception:
                ctx.check("C16:corruption-rejected", True)
    ctx.cat("corruption:" + kind)
    ctx.nontrivial = True
    ctx.sample = {"corruption": kind, "role": role, "n": n}


def case(ctx, i, tier):
    k = i % 12
    if k == 11:
        tearsheet_case(ctx)
    elif k in (9, 10):
        frame_case(ctx)
    else:
        series_case(ctx)
