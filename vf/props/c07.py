"""C07 - track record and rewards are a faithful, replayable account (engine EP)."""
from vf import epl

PROP = "C07"
LEVEL = "exploration"
ENGINE = "EP"
N = {"quick": 900, "thorough": 60000}
TIME = {"quick": 45, "thorough": 480}
RULE = ("Whole episodes on bar-shaped streams: 1-3 contracts (spot incl. multiplier 10, ES, ZN, user futures; every 8th case a "
        "futures chain ES/NK/ZN/VX rolling over 40-120 steps), spreads, fixed/proportional fees, markup, interest-rate paths incl. "
        "negative, latency {0,5,30}s with extra quotes at L-1ms/L/L+1ms, delay 0-3, late folds, all four reward classes, Box and "
        "Discrete spaces. A recording observer logs every delivered quote; hooks on Broker.rebalance write REB markers and the cash "
        "balance before the rebalance. An independent ledger replays the RECORDED trades and interest against the LOGGED quotes and must "
        "reproduce every recorded pre/post NLV, holdings, weights, commissions; stamps, strict time order, one entry per decision, "
        "interest closed form, rewards as the stated function, TrackRecord series accessors, compounding of simple returns. "
        "Non-trivial = >= 3 decisions with at least one trade at positive spread or fee.")
ASSUMPTIONS = ["bar-shaped data (a quote at every timestep) as the property states", "weights sized so the account stays solvent (insolvency is C09)"]
REQUIRED = ["C07:one-entry-per-decision", "C07:stamp-latest-event", "C07:interest-recorded", "C07:pre-nlv-replayed",
            "C07:post-nlv-replayed", "C07:trade-quotes-as-logged", "C07:commission", "C07:holdings-recorded", "C07:weights-recorded",
            "C07:reward", "C07:times-strictly-increasing", "C07:nlv-series", "C07:transaction-costs-series",
            "C07:simple-returns-compound"]
REQUIRED_CATS = ["reward:RewardPnL", "reward:RewardLogReturn", "reward:LogReturn", "reward:RewardSimpleReturn", "chain",
                 "rate-path", "late-fold"]
REQUIRED_HITS = ["Broker.rebalance"]
TECHNIQUE = "runtime monitoring: offline replay of the recorded track record against the observer's quote log with an independent ledger"
LEVEL_TEXT = ("Exploration: offline checker over recorded event logs. Every episode's track record is replayed against the quote "
              "history the observer actually saw; every recorded number and every reward must be reproduced by the ledger.")
LEVEL_NOTE = ("Trusted: ledger + interest closed form (decimal). Mutation audit: checkpoint before the trades, reward on "
              "context_post, stamp = grid time, entry skipped when nothing trades are caught.")


def case(ctx, i, tier):
    chain = i % 8 == 7
    discrete = i % 8 == 3
    cfg, outs = epl.ledger_episode(ctx, {"C07"}, chain=chain, discrete=discrete)
    ctx.nontrivial = len(outs) >= 3 and ctx.evals.get("C07:commission", 0) > 0
