"""C07 - track record and rewards are a faithful, replayable account (engine EP)."""
from vf import ep, epl

PROP = "C07"
LEVEL = "exploration"
ENGINE = "EP"
N = {"quick": 900, "thorough": 60000}
TIME = {"quick": 300, "thorough": 480}
RULE = ("Whole episodes on bar-shaped streams: 1-3 contracts (spot incl. multiplier 10, ES, ZN, user futures; every 8th case a "
        "futures chain ES/NK/ZN/VX rolling over 40-120 steps), spreads, fixed/proportional fees, markup, interest-rate paths incl. "
        "negative, latency {0,5,30}s with extra quotes at L-1ms/L/L+1ms, delay 0-3, late folds, all four reward classes, Box and "
        "Discrete spaces. A recording observer logs every delivered quote; hooks on Broker.rebalance write REB markers and the cash "
        "balance before the rebalance. An independent ledger replays the RECORDED trades and interest against the LOGGED quotes and must "
        "reproduce every recorded pre/post NLV, holdings, weights, commissions; stamps, strict time order, one entry per decision, "
        "interest closed form, rewards as the stated function, TrackRecord series accessors, compounding of simple returns. "
        "Non-trivial = >= 3 decisions with at least one trade at positive spread or fee.")
ASSUMPTIONS = ["bar-shaped data (a quote at every timestep) as the property states", "weights sized so the account stays solvent (insolvency is C09)"]
REQUIRED = ["C07:one-entry-per-decision", "C07:stamp-latest-event", "C07:interest-recorded", "C07:pre-nlv-replayed",
            "C07:post-nlv-replayed", "C07:trade-quotes-as-logged", "C07:commission", "C07:holdings-recorded", "C07:weights-recorded",
            "C07:reward", "C07:times-strictly-increasing", "C07:nlv-series", "C07:transaction-costs-series",
            "C07:simple-returns-compound", "C07:xy-reward", "C07:record-read-mid-episode", "C07:record-survives-save-load", "C07:snapshot-adds-up"]
REQUIRED_CATS = ["decision-refused-several-times-in-a-row", "account-valued-inside-event-callbacks", "decision-refused-then-resubmitted", "bar-quotes-margined-contract-at-zero", "target-asks-for-dust-trade", "xy-reward-clip-binds", "scenario:cost-ruin", "reward:RewardPnL", "reward:RewardLogReturn", "reward:LogReturn", "reward:RewardSimpleReturn", "chain",
                 "rate-path", "late-fold"]
REQUIRED_HITS = ["Broker.rebalance"]
TECHNIQUE = "runtime monitoring: offline replay of the recorded track record against the observer's quote log with an independent ledger"
LEVEL_TEXT = ("Exploration: offline checker over recorded event logs. Every episode's track record is replayed against the quote "
              "history the observer actually saw; every recorded number and every reward must be reproduced by the ledger.")
LEVEL_NOTE = ("Trusted: ledger + interest closed form (decimal). Mutation audit: checkpoint before the trades, reward on "
              "context_post, stamp = grid time, entry skipped when nothing trades are caught.")


def cost_ruin(ctx):
    """Known finding K4: a decision that arrives solvent but whose own trading
    costs push NLV to <= 0 is executed (trades transacted) yet never recorded:
    Broker.rebalance raises EndOfEpisodeError from the post-trade snapshot,
    after the trades and before the checkpoint."""
    import numpy as np
    from datetime import datetime, timedelta
    from tradingenv.env import TradingEnv
    from tradingenv.contracts import ETF
    from tradingenv.spaces import BoxPortfolio
    from tradingenv.transmitter import Transmitter
    from tradingenv.events import EventNBBO
    from tradingenv.broker.fees import BrokerFees
    from tradingenv.broker.broker import EndOfEpisodeError
    from vf import ep
    rng = ctx.rng
    cash0 = rng.choice([10.0, 50.0, 1000.0])
    fee = cash0 * rng.uniform(0.25, 0.45)
    n = 8
    grid = [datetime(2020, 1, 1) + timedelta(days=k) for k in range(n)]
    tr = Transmitter(grid)
    tr.add_events([EventNBBO(t, ETF("A"), 10.0, 10.0) for t in grid])
    sink = ep.Sink()
    env = TradingEnv(action_space=BoxPortfolio([ETF("A")]), transmitter=tr, state=ep.Rec(sink), initial_cash=cash0,
                     broker_fees=BrokerFees(fixed=fee))
    sink.env = env
    unrecorded = 0
    with ep.EpMonitor(sink) as mon:
        env.reset()
        for k in range(n - 1):
            tx0, n0 = mon.n_transact, len(env.broker.track_record)
            try:
                o, r, done, info = env.step(np.array([0.5 if k % 2 == 0 else 0.2]))
            except EndOfEpisodeError:
                done = True
            executed = mon.n_transact - tx0
            recorded = len(env.broker.track_record) - n0
            if executed > 0 and recorded != 1:
                exc = mon.rebalance_exc[-1] if mon.rebalance_exc else None
                if isinstance(exc, EndOfEpisodeError) and env.broker.net_liquidation_value(False) <= 0:
                    ctx.finding("unrecorded-decision-when-costs-exceed-nlv", step=k, transacts=executed,
                                nlv_after=float(env.broker.net_liquidation_value(False)), fee=fee, cash0=cash0)
                    unrecorded += 1
                else:
                    ctx.violation("C07:one-entry-per-decision", step=k, transacts=executed, recorded=recorded)
            elif executed > 0:
                ctx.check("C07:one-entry-per-decision", recorded == 1)
            if done:
                break
    ctx.cat("scenario:cost-ruin")
    ctx.nontrivial = True
    ctx.sample = {"scenario": "cost-ruin", "cash0": cash0, "fixed_fee": fee, "unrecorded_executed_decisions": unrecorded}


def xy_reward(ctx):
    """The tabular front-end states its reward as: log-return / scale, clipped to +-reward_clipping,
    negative values multiplied by (1 + risk_aversion); scale = mean over assets of the standard
    deviation of daily log-returns up to transformer_end."""
    import math
    import numpy as np
    import pandas as pd
    from tradingenv.env import TradingEnvXY
    r, rng = ctx.rng, ctx.nrng
    n = r.randint(60, 120)
    dates = pd.date_range("2021-03-01", periods=n, freq="B")
    rets = rng.normal(0, 0.01, [n, 2])
    for _ in range(r.randint(3, 8)):          # a few large moves so that the clip binds
        rets[r.randrange(n // 2, n), r.randrange(2)] = r.choice([-1, 1]) * r.uniform(0.05, 0.12)
    Y = pd.DataFrame(100 * np.exp(np.cumsum(rets, 0)), dates, columns=["a", "b"])
    X = pd.DataFrame(rng.normal(0, 1, [n, 2]), dates)
    rclip = r.choice([0.5, 1.5, 2.0, 3.0])
    fclip = r.choice([1.0, 5.0])
    ra = r.choice([0.0, 0.25])
    kend = r.randint(n // 3, n - 1)
    env = TradingEnvXY(X, Y, transformer=r.choice([None, "z-score"]), transformer_end=dates[kend], clip=fclip,
                       reward_clipping=rclip, risk_aversion=ra, spread=0.0, fee=0.0, margin=0.0, steps_delay=0,
                       max_long=1.0, max_short=-1.0)
    scale = float(np.log(Y.loc[:dates[kend]]).diff().std().mean())
    env.reset()
    done = ep.reset_ended_episode(env)
    k = 0
    bound = 0
    while not done and k < n + 2:
        a = np.array([r.uniform(0.3, 1.0), r.uniform(-1.0, -0.3)]) * r.choice([-1, 1])
        o, rew, done, info = env.step(a)
        k += 1
        pre = env.broker.track_record[-1].context_pre.nlv
        now = env.broker.net_liquidation_value(False)
        v = math.log(now / pre) / scale
        if abs(v) > rclip:
            bound += 1
        v = max(-rclip, min(rclip, v))
        v = v * (1 + ra) if v < 0 else v
        ctx.check("C07:xy-reward", abs(v - rew) <= 1e-9 * max(1.0, abs(v)), reward=rew, want=v, reward_clipping=rclip,
                  feature_clip=fclip, risk_aversion=ra, step=k)
    ctx.cat("scenario:xy-reward", "xy-reward-clip-binds" if bound else "xy-reward-clip-idle")
    ctx.nontrivial = bound > 0
    ctx.sample = {"scenario": "xy-reward", "reward_clipping": rclip, "feature_clip": fclip, "risk_aversion": ra, "steps": k,
                  "steps_where_clip_binds": bound}


def case(ctx, i, tier):
    if i % 40 == 39:
        return cost_ruin(ctx)
    if i % 40 == 19:
        return xy_reward(ctx)
    chain = i % 8 == 7
    discrete = i % 8 == 3
    cfg, outs = epl.ledger_episode(ctx, {"C07"}, chain=chain, discrete=discrete)
    ctx.nontrivial = len(outs) >= 3 and ctx.evals.get("C07:commission", 0) > 0
    if i % 4 == 0 and not chain:
        # the track record of a second episode on the same environment starts afresh
        epl.ledger_episode(ctx, {"C07"}, prebuilt=cfg["_prebuilt"])
