"""C05 - margin account invariant and NLV decomposition (engine BL)."""
from vf import bl

PROP = "C05"
LEVEL = "exploration"
ENGINE = "BL"
N = {"quick": 2500, "thorough": 160000}
TIME = {"quick": 40, "thorough": 420}
RULE = ("Same generated broker histories as C01 (spot-like and margined contracts incl. user-defined, spreads, fees, rates). "
        "Post-conditions are evaluated INSIDE hooks on Broker.net_liquidation_value, marking_to_market (all / one), "
        "holdings_weights, context and transact (traded contract only): margin == requirement x multiplier x |position| x "
        "liquidation price (>=0, 0 when flat, 0 for spot), cash + margins + liquidation value of fully-paid positions == reported "
        "NLV, weight == position x liq x multiplier / NLV, Context fields mutually consistent; and against the ledger after every "
        "operation. Non-trivial = a margined position that is short, or >= 2 margined contracts open at once.")
ASSUMPTIONS = [
    "hooks read only non-mutating public views (holdings_quantity, holdings_margins, exchange books)",
    "positions lacking a liquidation quote are skipped (C13's domain)",
]
REQUIRED = ["C05:margin@valuation", "C05:margin@trade", "C05:margin@mark-all", "C05:margin@mark-one",
            "C05:decomposition@valuation", "C05:weight@weights", "C05:context-consistent", "C05:no-margin-for-spot@valuation",
            "C05:margin-vs-ledger"]
REQUIRED_HITS = ["Broker.transact", "Broker.marking_to_market", "Broker.net_liquidation_value", "Broker.context",
                 "Broker.holdings_weights"]
TECHNIQUE = "runtime monitoring: invariant post-conditions inside hooks on the broker's valuation/marking/trading entry points"
LEVEL_TEXT = ("Exploration. Invariant-at-a-hook: every time the real broker values the account, marks to market or trades during "
              "thousands of generated histories, the margin/NLV-decomposition/weight post-conditions are asserted from the public "
              "holdings views, and again against an independent ledger. Held on the observed calls only.")
LEVEL_NOTE = ("Trusted: the exchange's books as price source inside hooks (decided by C14), the harness hooks (validated by "
              "mutation audit: margin at execution price, missing abs for shorts, sweep sign, weights on mid, partial sweep are caught).")


def case(ctx, i, tier):
    bl.history(ctx, {"C05"})
    ctx.nontrivial = ctx.notes.get("nt05", False)
