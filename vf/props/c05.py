"""C05 - margin account invariant and NLV decomposition (engine BL)."""
from tradingenv.broker.broker import EndOfEpisodeError

from vf import bl

PROP = "C05"
LEVEL = "exploration"
ENGINE = "BL"
N = {"quick": 1600, "thorough": 120000}
TIME = {"quick": 300, "thorough": 420}
RULE = ("Same generated broker histories as C01 (spot-like and margined contracts incl. user-defined, spreads, fees, rates). "
        "Post-conditions are evaluated INSIDE hooks on Broker.net_liquidation_value, marking_to_market (all / one), "
        "holdings_weights, context and transact (traded contract only): margin == requirement x multiplier x |position| x "
        "liquidation price (>=0, 0 when flat, 0 for spot), cash + margins + liquidation value of fully-paid positions == reported "
        "NLV, weight == position x liq x multiplier / NLV, Context fields mutually consistent; and against the ledger after every "
        "operation. Non-trivial = a margined position that is short, or >= 2 margined contracts open at once.")
ASSUMPTIONS = [
    "hooks read only non-mutating public views (holdings_quantity, holdings_margins, exchange books)",
    "positions lacking a liquidation quote are skipped (C13's domain)",
]
REQUIRED = ["C05:margin@valuation", "C05:margin@trade", "C05:margin@mark-all", "C05:margin@mark-one",
            "C05:decomposition@valuation", "C05:weight@weights", "C05:context-consistent", "C05:no-margin-for-spot@valuation",
            "C05:margin-vs-ledger"]
REQUIRED_CATS = ["episode:chain", "episode:plain", "flat-margined-contract-discontinued", "liquidation-quote-exactly-zero"]
REQUIRED_HITS = ["Broker.transact", "Broker.marking_to_market", "Broker.net_liquidation_value", "Broker.context",
                 "Broker.holdings_weights"]
TECHNIQUE = "runtime monitoring: invariant post-conditions inside hooks on the broker's valuation/marking/trading entry points"
LEVEL_TEXT = ("Exploration. Invariant-at-a-hook: every time the real broker values the account, marks to market or trades during "
              "thousands of generated histories, the margin/NLV-decomposition/weight post-conditions are asserted from the public "
              "holdings views, and again against an independent ledger. Held on the observed calls only.")
LEVEL_NOTE = ("Trusted: the exchange's books as price source inside hooks (decided by C14), the harness hooks (validated by "
              "mutation audit: margin at execution price, missing abs for shorts, sweep sign, weights on mid, partial sweep are caught).")


def episode(ctx, chain):
    """The same post-conditions while a real TradingEnv episode runs: the hooks
    fire on every valuation / marking / trade the environment itself performs
    (reward computation, feature-free state, rebalancing)."""
    import numpy as np
    from tradingenv.contracts import FutureChain
    from vf import ep, epl
    env, sink, cfg = epl.build(ctx, chain=chain, discrete=False)
    cs = []
    for c in cfg["cs"]:
        cs.extend(c.contracts if isinstance(c, FutureChain) else [c])
    rng = ctx.rng
    short_margined = False
    with bl.MarginMonitor(ctx, cs, active=True):
        env.reset()
        done = ep.done_at_reset(env, sink)
        k = 0
        while not done and k < len(cfg["grid"]) + 2:
            if chain:
                a = np.array([rng.choice([0, rng.uniform(-1.5, 1.5)]), rng.uniform(-0.3, 0.5)])
            else:
                a = np.array([rng.choice([0.0, rng.uniform(-0.4, 0.5)]) for _ in cfg["cs"]])
            if cfg.get("nrc"):
                # positions in numbers of contracts: sized like the weights at the first quotes
                a = np.array([w * cfg["cash0"] / (cfg["px0"][c] * c.multiplier) for w, c in zip(a, cfg["cs"])] + [0.0])
            try:
                o, r, done, info = env.step(a)
            except EndOfEpisodeError:
                ctx.cat("episode-ended-by-K1-escape")     # known finding K1 (C09): ruined by the step's own events
                break
            k += 1
            hq = env.broker.holdings_quantity
            if any(q < 0 and c.margin_requirement != 0 for c, q in hq.items()):
                short_margined = True
    ctx.cat("episode", "episode:chain" if chain else "episode:plain")
    ctx.nontrivial = short_margined
    ctx.sample = {"episode": True, "chain": chain, "steps": k, "contracts": [getattr(c, "symbol", "?") for c in cfg["cs"]],
                  "latency": cfg["L"], "delay": cfg["d"]}


def case(ctx, i, tier):
    if i % 8 == 7:
        return episode(ctx, chain=(i % 16 == 15))
    if i % 8 == 6:
        return bl.special_quotes(ctx, {"C05", "C01"})
    bl.history(ctx, {"C05"})
    ctx.nontrivial = ctx.notes.get("nt05", False)
