"""C10 - episodes are reproducible and environments are isolated (engine EP, twin runs)."""
import itertools
import random
import traceback
from datetime import datetime, timedelta

import gymnasium
import numpy as np

from tradingenv.env import TradingEnv
from tradingenv.contracts import ETF, ES, NK, FutureChain, AbstractContract
from tradingenv.spaces import BoxPortfolio, DiscretePortfolio
from tradingenv.transmitter import Transmitter
from tradingenv.events import EventNBBO
from tradingenv.state import IState
from tradingenv.features import Feature
from tradingenv.library import FeatureSpread, FeaturePortfolioWeight
from tradingenv.broker.fees import BrokerFees
from tradingenv.broker.broker import EndOfEpisodeError
from tradingenv.broker.trade import Trade
from tradingenv.policy import AbstractPolicy

from vf import alone, ep, core

PROP = "C10"
LEVEL = "exploration"
ENGINE = "EP"
N = {"quick": 400, "thorough": 8000}
TIME = {"quick": 300, "thorough": 480}
M_STEPS = {"quick": 3, "thorough": 5}
PAIRS = {"quick": 4, "thorough": 20}
RULE = ("Twin runs compared bit-for-bit on canonical digests (observation arrays by bytes, reward float.hex, done, trades, holdings, "
        "NLV, track-record length; for the space-less state the identity of obs/obs.exchange/obs.broker relative to the environment). "
        "Baseline T = a fresh environment alone. Clauses: a fresh identical build gives T; the same object after 1-3 prior episodes "
        "(abandoned after 0-3 steps, completed with other actions, other fold, ended by a rejected action, ended by insolvency) gives T; "
        "two or three different environments stepped under a random call schedule each equal their own T; systematic part: ALL "
        "interleavings of two episodes of m steps (C(2m+2,m+1): m=3 quick = 70, m=5 thorough = 924) for 4 / 20 environment pairs. "
        "Configurations: spot with stateful features (feature with memory, portfolio-weight, spread), fees, latency, delay, reward "
        "classes, folds, discrete spaces, futures chains at different dates, default `state`. Non-trivial = the case involves a prior "
        "episode or an interleaving with at least one stateful-feature or chain environment.")
ASSUMPTIONS = ["call-level interleavings only (single-threaded); thread pre-emption inside step() is outside the property's quantifier",
               "chain spans cover every time used in the process except in the dedicated K3 scenario"]
REQUIRED = ["C10:fresh-identical", "C10:after-history", "C10:interleaved", "C10:all-interleavings",
            "C10:same-as-alone-in-fresh-interpreter", "C10:backtest-same-as-step-loop", "C10:copy-continues-identically", "C10:returned-record-unchanged-by-later-episodes"]
REQUIRED_CATS = ["fit-transformers-from-a-shared-config", "scenario:used-transmitter-other-latency", "kind:xy", "alone-kind:xy", "alone-kind:spot", "alone-kind:chain", "kind:chain", "kind:spot", "kind:discrete", "history:abandon", "history:full", "history:otherfold", "history:error", "history:refused-reset",
                 "history:insolvency", "history:windowed", "scenario:K3-construction", "kind:default-state"]
TECHNIQUE = "runtime monitoring: twin-run comparison of canonical call digests (same process, deep copies, backtest entry point, and the same environment alone in a fresh interpreter); exhaustive call-level interleavings of two short episodes"
LEVEL_TEXT = ("Exploration plus an exhaustive enumeration of the call-level interleavings of two short episodes for a few environment "
              "pairs. Bit-identical digests are required between a run alone and the same run after other episodes / interleaved with "
              "another environment.")
LEVEL_NOTE = ("Trusted: digest function. Two known findings (shared default state; chain space built off-span) are classified by "
              "mechanism. Mutation audit: reverted clock re-sync fix, exchange/queue/last-event/reward state not rebuilt at reset, feature "
              "history not cleared are caught.")


class FA(Feature):
    """Feature with memory (last three bids)."""

    def __init__(self, cs=None):
        self.cs = cs
        self.hist = []
        super().__init__(space=gymnasium.spaces.Box(-np.inf, np.inf, (1, 3), float), name="FA")

    def process_EventNBBO(self, event):
        self.hist.append(event.bid_price)

    def process_EventNewDate(self, event):
        # new-date notifications are part of what an observer sees
        self.hist.append(-float(event.time.toordinal()))

    def parse(self):
        h = self.hist[-3:]
        h = [0.0] * (3 - len(h)) + h
        return np.array([h])


class FP(Feature):
    """Parse-only feature (observes no event, like the library's price / weight / spread features) that keeps a
    running quantity between two calls: the peak of the account value and the number of observations made."""

    def __init__(self):
        self.peak = -np.inf
        self.calls = 0
        super().__init__(space=gymnasium.spaces.Box(-np.inf, np.inf, (1, 2), float), name="FP")

    def parse(self):
        self.calls += 1
        broker = getattr(self, "broker", None)
        if broker is not None:
            try:
                self.peak = max(self.peak, broker.net_liquidation_value(False))
            except Exception:
                pass
        return np.array([[float(self.calls), self.peak if self.peak > -np.inf else 0.0]])


class FL(Feature):
    """A user feature whose attribute is created LAZILY, inside its event callback, not in __init__ (a common way to
    write a running maximum): Observer.reset documents that such attributes are discarded."""

    def __init__(self):
        super().__init__(space=gymnasium.spaces.Box(-np.inf, np.inf, (1, 1), float), name="FL")

    def process_EventNBBO(self, event):
        if not hasattr(self, "peak"):
            self.peak = float(event.bid_price)
        self.peak = max(self.peak, float(event.bid_price))

    def parse(self):
        return np.array([[getattr(self, "peak", 0.0)]])


def make_signal(which):
    """A CLASS FACTORY for user features: every call returns a new class of the same module and qualified name
    ('Signal') whose single event callback depends on the argument - what a configurable feature library, a notebook
    cell run twice or a reloaded module produces."""

    class Signal(Feature):
        def __init__(self):
            self.v = 0.0
            super().__init__(space=gymnasium.spaces.Box(-np.inf, np.inf, (1, 1), float), name="Signal")

        def parse(self):
            return np.array([[self.v]])

    if which == "nbbo":
        def cb(self, event):
            self.v = float(event.ask_price)
        Signal.process_EventNBBO = cb
    elif which == "step":
        def cb(self, event):
            self.v += 1.0
        Signal.process_EventStep = cb
    else:
        def cb(self, event):
            self.v = float(event.time.toordinal())
        Signal.process_EventNewDate = cb
    return Signal


def build_xy(seed):
    """The tabular front-end with a transformer given by its shortcut name."""
    import pandas as pd
    from tradingenv.env import TradingEnvXY
    rng = random.Random(seed)
    nrng = np.random.RandomState(seed % (2 ** 32))
    n = rng.randint(40, 80)
    dates = pd.date_range("2021-03-01", periods=n, freq="B")
    X = pd.DataFrame(nrng.normal(rng.uniform(-2, 2), rng.uniform(0.5, 3), [n, 3]), dates, columns=["f0", "f1", "f2"])
    Y = pd.DataFrame(100 * np.exp(np.cumsum(nrng.normal(0, 0.01, [n, 2]), 0)), dates, columns=["a", "b"])
    folds = {"training-set": [dates[0].to_pydatetime(), dates[-1].to_pydatetime()],
             "late": [dates[n // 2].to_pydatetime(), dates[-1].to_pydatetime()]}
    env = TradingEnvXY(X, Y, transformer=rng.choice(["z-score", "yeo-johnson", None]), window=rng.choice([1, 3]),
                       folds=folds, steps_delay=rng.choice([0, 1]), transformer_end=rng.choice([None, dates[n // 2]]))
    env._vf_default_state = False
    acts = [np.array([rng.uniform(-0.6, 0.6), rng.uniform(-0.4, 0.4)]) for _ in range(n)]
    return env, acts, np.array([9., 9.]), True


def alone_episode(spec, fold):
    """What an environment built from `spec` produces when it is the only one the interpreter has ever seen
    (called in a fresh interpreter through vf.alone)."""
    env, acts, _, _ = build(spec)
    return episode(env, acts, fold)


FIT_CFG = {"fold": "late"}       # one configuration object, shared by every environment built from it


def build(spec, share=None):
    """share = {"L": latency[, "tr": an existing Transmitter holding this spec's data]}: build the environment
    with that latency and, if given, on that (already used) transmitter; a transmitter built here is stored in it."""
    kind, seed = spec
    if kind == "xy":
        return build_xy(seed)
    rng = random.Random(seed)
    default_state = kind == "default-state"
    if kind == "chain":
        fcls = rng.choice([ES, NK])
        ch = FutureChain(fcls, "2018-12", "2021-12")
        start = datetime(2019, 1, 1) + timedelta(days=rng.randint(0, 300))
        n = rng.randint(8, 30)
        grid = [start + timedelta(days=3 * k) for k in range(n)]
        evs = []
        for j, c in enumerate(ch.contracts):
            for t in grid:
                if t < c.expiry:
                    p = 2000 + 10 * j + rng.uniform(-5, 5)
                    evs.append(EventNBBO(t, c, p, p + 0.25))
        cs = [ch]
    else:
        cs = [ETF("A"), ETF("B")][: rng.randint(1, 2)]
        n = rng.randint(6, 16)
        start = datetime(2020, 1, 1) + timedelta(days=rng.randint(0, 50))
        gap = rng.choice([3600, 86400])
        grid = [start + timedelta(seconds=gap * k) for k in range(n)]
        evs = []
        skip = set(rng.sample(range(1, n - 1), rng.choice([0, 1, 2]))) if n > 4 else set()   # event-less timesteps
        for gi, t in enumerate(grid):
            if gi in skip:
                continue
            for c in cs:
                p = rng.uniform(40, 42)
                evs.append(EventNBBO(t, c, p, p * 1.001))
            if rng.random() < 0.5 and (gi + 1) not in skip:
                # (not before an event-less timestep: a slot holding only latent events makes two
                #  decisions share a stamp, which TrackRecord rejects - DESIGN 4.2-c)
                p = rng.uniform(40, 42)
                evs.append(EventNBBO(t + timedelta(seconds=7), rng.choice(cs), p, p * 1.001))
    L = rng.choice([0, 10])
    d = rng.choice([0, 1, 2])
    if share is not None:
        L = share["L"]
    if share is not None and share.get("tr") is not None:
        tr = share["tr"]
    else:
        tr = Transmitter(grid, folds={"training-set": [grid[0], grid[-1]], "late": [grid[len(grid) // 2], grid[-1]]})
        tr.add_events(evs)
        if share is not None:
            share["tr"] = tr
    fees = BrokerFees(proportional=1e-4, fixed=0.01)
    reward = rng.choice(["RewardPnL", "RewardSimpleReturn", "RewardLogReturn"])
    if kind == "discrete":
        allocs = [[0.0] * len(cs)] + [[rng.uniform(-0.6, 0.6) for _ in cs] for _ in range(4)]
        space = DiscretePortfolio(cs, allocs)
        acts = [rng.randrange(5) for _ in grid]
        bad = 99
    else:
        space = BoxPortfolio(cs, -1, 1, margin=rng.choice([0, 0.01]))
        acts = [np.array([rng.uniform(-0.6, 0.6) for _ in cs]) for _ in grid]
        bad = np.array([9.] * len(cs))
    kw = {}
    if not default_state:
        if rng.random() < 0.8 or kind == "discrete":
            kw["state"] = [FA(cs), FeaturePortfolioWeight(cs, -3, 3), FeatureSpread(cs)] + ([FP()] if rng.random() < 0.6 else [])
            # (a feature whose class comes out of a factory: same name in every environment, another callback)
            kw["state"].append(make_signal(["nbbo", "step", "newdate"][seed % 3])())
            if seed % 2 == 0:
                kw["state"].append(FL())
        else:
            kw["state"] = IState()
    if kind == "spot" and seed % 4 == 0 and not default_state:
        # feature transformers fitted at construction on a fold named in a configuration dict that the caller keeps
        # and reuses for every environment it builds (an experiment config)
        from tradingenv.library import FeaturePrices
        kw["state"] = [FeaturePrices(cs)]
        kw["fit_transformers"] = FIT_CFG
    try:
        env = TradingEnv(action_space=space, transmitter=tr, latency=L, steps_delay=d, broker_fees=fees, reward=reward,
                         initial_cash=1e6, **kw)
    except EndOfEpisodeError:
        # (the warm-up backtest of fit_transformers over a window without a single decision - DESIGN 4.2-f: the
        #  environment is built without fitting instead)
        kw.pop("fit_transformers", None)
        env = TradingEnv(action_space=space, transmitter=tr, latency=L, steps_delay=d, broker_fees=fees, reward=reward,
                         initial_cash=1e6, **kw)
    env._vf_default_state = default_state
    stateful = isinstance(kw.get("state"), list) or kind == "chain"
    return env, acts, bad, stateful


def snap(env, o, r, done, info):
    tr = tuple((str(t.contract), float(t.quantity).hex(), float(t.bid_price).hex(), float(t.ask_price).hex())
               for t in info["_rebalancing"].trades) if info else None
    if isinstance(o, IState):
        od = ("IState", o is env.state, o.exchange is env.exchange, o.broker is env.broker)
    else:
        od = ep.odigest(o)
    return (env.now(), od, None if r is None else float(r).hex(), bool(done), tr,
            float(env.broker.net_liquidation_value(False)).hex(),
            tuple(sorted((str(c), float(q).hex()) for c, q in env.broker.holdings_quantity.items())),
            len(env.broker.track_record))


def first_call(env, fold):
    o = env.reset(fold)
    return snap(env, o, None, ep.reset_ended_episode(env), None)


def episode(env, acts, fold, upto=None):
    out = [first_call(env, fold)]
    k = 0
    while not out[-1][3] and (upto is None or k < upto):
        if k > len(acts) + 2:
            raise core.Inconclusive("episode exceeded its step cap")
        out.append(snap(env, *env.step(acts[k])))
        k += 1
    return out


class Scripted(AbstractPolicy):
    """A policy that plays a fixed list of actions (for TradingEnv.backtest)."""

    def __init__(self, acts):
        self.acts = list(acts)
        self.k = 0

    def act(self, state=None):
        a = self.acts[self.k]
        self.k += 1
        return a


def record_digest(env):
    """The track record of the episode just played, entry by entry."""
    trk = env.broker.track_record
    out = []
    for j in range(len(trk)):
        rb = trk[j]
        out.append((rb.time, float(rb.context_pre.nlv).hex(), float(rb.context_post.nlv).hex(),
                    tuple((str(t.contract), float(t.quantity).hex(), float(t.bid_price).hex(), float(t.ask_price).hex())
                          for t in rb.trades),
                    tuple(sorted((str(c), float(q).hex()) for c, q in rb.context_post.nr_contracts.items()))))
    return out


def differs_only_in_identity(a, b):
    """True when two traces differ only in the identity flags of a space-less
    default state (known finding K2)."""
    if len(a) != len(b):
        return False
    for x, y in zip(a, b):
        if x == y:
            continue
        if x[0] != y[0] or x[2:] != y[2:]:
            return False
        if not (isinstance(x[1], tuple) and x[1][:1] == ("IState",) and isinstance(y[1], tuple) and y[1][:1] == ("IState",)):
            return False
    return True


def compare(ctx, clause, got, want, default_state, **detail):
    if got == want:
        ctx.check(clause, True)
        return True
    if default_state and differs_only_in_identity(got, want):
        ctx.finding("shared-default-state", clause=clause, **detail)
        return True
    idx = [x != y for x, y in zip(got, want)]
    j = idx.index(True) if True in idx else min(len(got), len(want))
    fields = ["now", "obs", "reward", "done", "trades", "nlv", "holdings", "records"]
    diff = [f for f, x, y in zip(fields, got[j], want[j]) if x != y] if j < min(len(got), len(want)) else ["length"]
    ctx.check(clause, False, call=j, fields=diff, got=repr(got[j] if j < len(got) else None)[:300],
              want=repr(want[j] if j < len(want) else None)[:300], **detail)
    return False


KINDS = ["chain", "spot", "discrete", "default-state", "spot", "chain", "xy"]


def k3_scenario(ctx):
    """Dedicated history of known finding K3: building a chain-based space
    after another environment moved the process clock past the chain's span."""
    env, acts, bad, _ = build(("spot", 1))
    episode(env, acts, "training-set")        # clock now in 2020
    try:
        BoxPortfolio([FutureChain(ES, "2010-01", "2015-12")])
        ctx.check("C10:chain-space-construction-independent-of-clock", True)
    except IndexError as e:
        names = [f.name for f in traceback.extract_tb(e.__traceback__)]
        if "lead_contract" in names and "__init__" in names:
            ctx.finding("chain-space-built-off-span", clock=AbstractContract.now, span="2010-01..2015-12")
        else:
            ctx.violation("C10:chain-space-construction-independent-of-clock", error=repr(e), frames=names[-6:])
    ctx.cat("scenario:K3-construction")
    ctx.sample = {"scenario": "K3: build BoxPortfolio([FutureChain(ES,'2010-01','2015-12')]) with the process clock in 2020"}
    ctx.nontrivial = True


def alone_scenario(ctx, i):
    """An environment in the busy check process (which has built hundreds of environments before, and builds
    and runs two more of the same kind right before this one) against the same environment ALONE in a fresh
    interpreter: every call must return the same thing."""
    kind = ["xy", "spot", "chain", "xy", "discrete"][(i // 50) % 5]
    seed = ctx.np_seed * 2 % 10 ** 6
    fold = ctx.rng.choice(["training-set", "late"])
    for k in (1, 2):
        other, acts_o, _, _ = build((kind, seed + k))
        episode(other, acts_o, "training-set", upto=3)
    env, acts, _, _ = build((kind, seed))
    got = episode(env, acts, fold)
    want = alone.call("c10", "alone_episode", (kind, seed), fold)
    compare(ctx, "C10:same-as-alone-in-fresh-interpreter", got, want, False, spec=(kind, seed), fold=fold)
    ctx.cat("scenario:alone-in-fresh-interpreter", "alone-kind:" + kind)
    ctx.sample = {"scenario": "busy process vs fresh interpreter", "spec": (kind, seed), "fold": fold, "calls": len(got)}
    ctx.nontrivial = True


def shared_transmitter_scenario(ctx, i):
    """The data is loaded once into a Transmitter; a first environment (latency L1) is built on it and used; a
    second environment with ANOTHER latency is then built on the same transmitter: it must behave exactly like
    the same environment built on a transmitter of its own."""
    kind = ["spot", "discrete", "spot", "chain"][(i // 50) % 4]
    seed = ctx.np_seed * 2 % 10 ** 6
    L1, L2 = ctx.rng.choice([(10, 0), (0, 10), (10, 3)])
    fold = ctx.rng.choice(["training-set", "late"])
    sh = {"L": L1}
    first, acts1, _, _ = build((kind, seed), share=sh)
    episode(first, acts1, "training-set", upto=ctx.rng.randint(0, 4))
    second, acts, _, _ = build((kind, seed), share={"L": L2, "tr": sh["tr"]})
    got = episode(second, acts, fold)
    own, acts_o, _, _ = build((kind, seed), share={"L": L2})
    want = episode(own, acts_o, fold)
    compare(ctx, "C10:fresh-identical", got, want, False, spec=(kind, seed), fold=fold, latencies=[L1, L2],
            scenario="second environment on a used transmitter, other latency")
    ctx.cat("scenario:used-transmitter-other-latency")
    ctx.sample = {"scenario": "used transmitter, other latency", "spec": (kind, seed), "latencies": [L1, L2], "fold": fold}
    ctx.nontrivial = True


def case(ctx, i, tier):
    if i % 50 == 49:
        return k3_scenario(ctx)
    if i % 50 == 21:
        return shared_transmitter_scenario(ctx, i)
    if i % 50 == 7:
        return alone_scenario(ctx, i)
    rng = ctx.rng
    kindA = KINDS[i % len(KINDS)]
    if kindA == "xy" and (i // len(KINDS)) % 3:
        kindA = "spot"          # (tabular environments are slow to build: every third turn only)
    specA = (kindA, ctx.np_seed * 2 % 10 ** 6)
    specB = (rng.choice(["chain", "spot", "discrete"]) if specA[0] != "default-state" else "default-state", ctx.np_seed * 2 % 10 ** 6 + 1)
    fold = rng.choice(["training-set", "late"])
    ctx.cat("kind:" + specA[0], "kind:" + specB[0])
    A, aA, badA, stA = build(specA)
    if specA[0] == "spot" and specA[1] % 4 == 0:
        ctx.check("C10:callers-configuration-untouched", FIT_CFG == {"fold": "late"}, config=dict(FIT_CFG))
        FIT_CFG.clear()
        FIT_CFG.update({"fold": "late"})
        ctx.cat("fit-transformers-from-a-shared-config")
    dsA = specA[0] == "default-state"
    TA = episode(A, aA, fold)
    ctx.sample = {"A": specA, "B": specB, "fold": fold, "calls_in_baseline": len(TA)}
    # fresh identical build
    A2, _, _, _ = build(specA)
    compare(ctx, "C10:fresh-identical", episode(A2, aA, fold), TA, dsA, spec=specA)
    if specA[0] != "default-state" and TA[-1][3] and len(TA) > 1 and rng.random() < 0.4:
        # (len(TA) > 1: a window whose single timestep ends the episode at reset holds no decision - DESIGN 4.2-f;
        #  backtest() is not defined for it)
        # the same actions through the other public way of running an episode, TradingEnv.backtest(policy)
        A3, _, _, _ = build(specA)
        want_rec = record_digest(A)
        rec3 = A3.backtest(fold, policy=Scripted(aA))
        got_rec = record_digest(A3)
        hist3 = getattr(rec3, "state_history", None)
        if isinstance(hist3, dict) and hist3:
            # what the returned record says - its entries and the state history attached to it - stays what it is
            # when ANOTHER episode is played on the same environment afterwards
            before = (len(rec3), [(k_, ep.odigest(v_) if not isinstance(v_, IState) else "IState") for k_, v_ in hist3.items()])
            episode(A3, list(reversed(aA)), "late" if fold != "late" else "training-set", upto=rng.randint(0, 3))
            after = (len(rec3), [(k_, ep.odigest(v_) if not isinstance(v_, IState) else "IState") for k_, v_ in rec3.state_history.items()])
            ctx.check("C10:returned-record-unchanged-by-later-episodes", before == after, entries=[before[0], after[0]],
                      history=[len(before[1]), len(after[1])])
            ctx.cat("earlier-record-inspected-after-later-episode")
        ctx.check("C10:backtest-same-as-step-loop", got_rec == want_rec, spec=specA, fold=fold,
                  entries=[len(got_rec), len(want_rec)],
                  first_diff=next((j for j, (x, y) in enumerate(zip(got_rec, want_rec)) if x != y), None))
        ctx.cat("backtest-entry-point")
    if specA[0] not in ("default-state", "xy") and len(TA) > 3 and rng.random() < 0.3:
        # a deep copy taken mid-episode (a checkpoint): the copy and the original, stepped in turns with the same
        # remaining actions, both continue exactly as the uninterrupted episode does
        import copy
        A4, _, _, _ = build(specA)
        cut = rng.randint(1, len(TA) - 2)
        pre = [first_call(A4, fold)] + [snap(A4, *A4.step(aA[j])) for j in range(cut)]
        A5 = copy.deepcopy(A4)
        o4, o5 = list(pre), list(pre)
        j = cut
        while not o4[-1][3] and j < len(aA):
            o5.append(snap(A5, *A5.step(aA[j])))
            o4.append(snap(A4, *A4.step(aA[j])))
            j += 1
        compare(ctx, "C10:copy-continues-identically", o5, TA, False, spec=specA, who="copy", cut=cut)
        compare(ctx, "C10:copy-continues-identically", o4, TA, False, spec=specA, who="original", cut=cut)
        ctx.cat("deep-copy-mid-episode")
    # the same object after other episodes
    hist = []
    for _ in range(rng.randint(1, 3)):
        m = rng.choice(["abandon", "full", "error", "otherfold", "insolvency", "windowed", "refused-reset"])
        hist.append(m)
        ctx.cat("history:" + m)
        if m == "abandon":
            episode(A, aA, fold, upto=rng.randint(0, 3))
        elif m == "full":
            episode(A, list(reversed(aA)), fold)
        elif m == "otherfold":
            episode(A, aA, "late" if fold != "late" else "training-set", upto=2)
        elif m == "refused-reset":
            # a reset on the OTHER fold that is refused (an episode length no window of that fold can hold); the
            # caller catches the error and goes back to the fold under test
            try:
                A.reset("late" if fold != "late" else "training-set", episode_length=10 ** 6)
            except Exception:
                pass
        elif m == "windowed":
            # an episode confined to a sampled window (reset's own episode_length argument)
            try:
                np.random.seed(ctx.np_seed)
                A.reset(fold, episode_length=rng.choice([2, 3]))
                for _k in range(rng.randint(0, 3)):
                    A.step(aA[_k])
            except EndOfEpisodeError:
                pass
            except ValueError:
                ctx.cat("history:windowed-refused")
        elif m == "error":
            A.reset(fold)
            try:
                for _k in range(4):
                    A.step(badA)
            except (ValueError, EndOfEpisodeError):
                pass
        else:
            # end an episode by insolvency through public calls only: a huge
            # leveraged purchase followed by a crash of that contract's quote.
            A.reset(fold)
            try:
                A.step(aA[0])
                c = A.action_space.contracts[0].static_hashing()
                book = A.exchange[c]
                nlv = A.broker.net_liquidation_value()
                qty = 40 * nlv / (book.ask_price * c.multiplier)
                A.broker.transact(Trade(A.now(), c, qty, book.bid_price, book.ask_price, A.broker.fees))
                A.notify(EventNBBO(A.now(), c, book.bid_price * 0.5, book.ask_price * 0.5))
                insolvent = A.broker.net_liquidation_value(False) <= 0
                A.step(aA[1])
                A.step(aA[2])
            except EndOfEpisodeError:
                ctx.cat("history:insolvency-ended-episode")
            except Exception:
                pass
    compare(ctx, "C10:after-history", episode(A, aA, fold), TA, dsA, spec=specA, history=hist)
    # interleaved with one or two other environments
    nenv = rng.choice([2, 2, 3])
    specs = [specA, specB] + ([(rng.choice(["spot", "chain"]), ctx.np_seed * 2 % 10 ** 6 + 2)] if nenv == 3 else [])
    folds = [fold, "training-set", "late"][:nenv]
    base = [TA]
    envs0 = []
    for sp, fo in list(zip(specs, folds))[1:]:
        e_, a_, _, _ = build(sp)
        base.append(episode(e_, a_, fo))
    envs = [build(sp) for sp in specs]
    outs = [[] for _ in specs]
    ks = [0] * nenv
    started = [False] * nenv
    sched = [rng.randrange(nenv) for _ in range(60 * nenv)]
    for w in sched:
        env, acts = envs[w][0], envs[w][1]
        if not started[w]:
            outs[w].append(first_call(env, folds[w]))
            started[w] = True
        elif not outs[w][-1][3]:
            outs[w].append(snap(env, *env.step(acts[ks[w]])))
            ks[w] += 1
    for w in range(nenv):
        ds = specs[w][0] == "default-state"
        compare(ctx, "C10:interleaved", outs[w], base[w][:len(outs[w])], ds, which=w, specs=specs)
    ctx.nontrivial = stA or any(s[0] == "chain" for s in specs)


# ---- systematic: all interleavings of two episodes of m steps ---------------- #
_SCHEDULES = {}


def schedules(m):
    if m not in _SCHEDULES:
        total = 2 * (m + 1)
        out = []
        for pos in itertools.combinations(range(total), m + 1):
            s = ["B"] * total
            for p in pos:
                s[p] = "A"
            out.append("".join(s))
        _SCHEDULES[m] = out
    return _SCHEDULES[m]


def pair_specs(p):
    kinds = [("chain", "chain"), ("spot", "spot"), ("chain", "spot"), ("discrete", "spot")]
    ka, kb = kinds[p % 4]
    return (ka, 1000 + 2 * p), (kb, 1001 + 2 * p)


def sys_count(tier):
    return len(schedules(M_STEPS[tier])) * PAIRS[tier]


def exhaustive(tier):
    return False


_BASE = {}


def sys_case(ctx, j, tier):
    m = M_STEPS[tier]
    sch = schedules(m)
    p, q = divmod(j, len(sch))
    sa, sb = pair_specs(p)
    s = sch[q]
    key = (sa, sb, m)
    if key not in _BASE:
        A, aA, _, _ = build(sa)
        B, aB, _, _ = build(sb)
        _BASE[key] = (episode(A, aA, "training-set", upto=m), episode(B, aB, "late", upto=m))
    TA, TB = _BASE[key]
    A, aA, _, _ = build(sa)
    B, aB, _, _ = build(sb)
    oa, ob = [], []
    for w in s:
        if w == "A":
            if not oa:
                oa.append(first_call(A, "training-set"))
            elif not oa[-1][3]:
                oa.append(snap(A, *A.step(aA[len(oa) - 1])))
        else:
            if not ob:
                ob.append(first_call(B, "late"))
            elif not ob[-1][3]:
                ob.append(snap(B, *B.step(aB[len(ob) - 1])))
    ok = oa == TA[:len(oa)] and ob == TB[:len(ob)]
    ctx.check("C10:all-interleavings", ok, schedule=s, pair=[sa, sb],
              first_diff_A=next((k for k, (x, y) in enumerate(zip(oa, TA)) if x != y), None),
              first_diff_B=next((k for k, (x, y) in enumerate(zip(ob, TB)) if x != y), None))
    ctx.cat("interleaving", "pair:{}+{}".format(sa[0], sb[0]))
    ctx.nontrivial = True
    ctx.sample = {"schedule": s, "pair": [sa, sb], "m": m}
