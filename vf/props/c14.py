"""C14 - order book semantics (engine LOB: reference model of the exchange)."""
import math
from datetime import datetime, timedelta

import numpy as np

from tradingenv.contracts import ETF, Stock, Index, ES, NK, FutureChain, AbstractContract
from tradingenv.exchange import Exchange
from tradingenv.events import EventNBBO, EventContractDiscontinued

NAN = float("nan")
PROP = "C14"
LEVEL = "exploration"
ENGINE = "LOB"
N = {"quick": 1200, "thorough": 80000}
TIME = {"quick": 300, "thorough": 420}
RULE = ("Random interleavings (5-80 operations) of quotes and discontinuations over assets, futures, a futures chain (with the "
        "process clock moved across roll dates) and plain string keys, delivered both by Exchange.process_* and by "
        "event.notify([exchange]); one-sided / NaN quotes included. After EVERY operation every key (object and symbol string) is "
        "compared bit-exactly (NaN-aware) with a dict model: bid/ask/mid, full history arrays, acq_price/liq_price for q in {+,-,0}, "
        "vector accessors, exchange[chain] is exchange[lead], exchange['SPY'] is exchange[ETF('SPY')]. Non-trivial = the history "
        "contains a discontinuation followed by a quote for the same contract, or a chain-addressed quote after a roll.")
ASSUMPTIONS = ["a quote is 'accepted' iff its book is alive; rejected quotes must not be appended to the history"]
REQUIRED = ["C14:price", "C14:alive", "C14:history", "C14:sides", "C14:chain-key-is-lead", "C14:string-key-same-book", "C14:vectors"]
REQUIRED_CATS = ["offset-lookup-before-chain-key", "user-chain-with-own-roll-rule", "chain-from-explicit-subset-plus-class", "refused-query-then-carry-on", "late-print-stamped-before-discontinuation", "chain-quote-built-before-roll", "quote-type:int", "quote-type:npint", "quote-type:f32", "chain-from-unsorted-list", "quote:one-side-only", "query:sparse", "query:all-keys-every-op", "op:disc", "op:chainq", "op:strq", "quote-after-death", "chain-after-roll"]
TECHNIQUE = "runtime monitoring: executable reference model (dict of books) compared after every operation of generated histories"
LEVEL_TEXT = ("Exploration: history + executable model. Every generated quote/discontinuation history is replayed against a small "
              "deterministic model and every observable of every book is compared after each operation.")
LEVEL_NOTE = ("Trusted: the 20-line model. Mutation audit: dead book revived, terminate not blanking, sides swapped, history not "
              "appended / appended for rejected quotes, static chain key are caught.")


def same(a, b):
    return (a == b) or (a != a and b != b)


class EarlyRollChain(FutureChain):
    """A user chain that rolls `roll` before the last trading date of the front contract."""

    def __init__(self, *args, roll=timedelta(days=10), **kwargs):
        super().__init__(*args, **kwargs)
        self.roll = roll

    def lead_contract(self, now=None, month=0):
        if now is None:
            now = self.now
        live = [c for c in self.contracts if c.last_trading_date - self.roll > now]
        return live[month]


def case(ctx, i, tier):
    rng = ctx.rng
    fcls = rng.choice([ES, NK])
    AbstractContract.now = datetime.min
    ch = FutureChain(fcls, "2019-01", "2021-12")
    ch1 = FutureChain(fcls, "2019-01", "2021-12", month=1)     # second-month chain over the same contracts
    members = list(ch.contracts)
    if rng.random() < 0.5:
        listed = list(ch.contracts)
        if rng.random() < 0.4:
            # a chain over a SUBSET of the listed expiries (e.g. a semi-annual roll), given explicitly - together with
            # the class and span arguments, which are then unnecessary: the explicit list is the chain
            listed = listed[::2]
            members = list(listed)
            rng.shuffle(listed)
            ch = FutureChain(fcls, "2019-01", "2021-12", contracts=listed) if rng.random() < 0.5 else FutureChain(future_cls=fcls, contracts=listed)
            ctx.cat("chain-from-explicit-subset-plus-class")
        else:
            rng.shuffle(listed)
            ch = FutureChain(contracts=listed)                  # same chain given as an unsorted explicit list
        ctx.cat("chain-from-unsorted-list")
    roll_td = timedelta(0)
    if rng.random() < 0.25:
        # a user-defined chain with its OWN roll rule (lead_contract overridden: leave the front contract some days
        # before its last trading date): the chain key addresses the book of the contract THAT rule designates
        roll_td = timedelta(days=rng.choice([5, 10, 30]))
        ch = EarlyRollChain(contracts=list(members), roll=roll_td) if rng.random() < 0.5 else EarlyRollChain(fcls, "2019-01", "2021-12", roll=roll_td)
        members = list(ch.contracts)
        ctx.cat("user-chain-with-own-roll-rule")
    ctx.check("C14:chain-members-as-given", len(ch.contracts) == len(members) and all(a is b for a, b in zip(ch.contracts, members)),
              got=[c.symbol for c in ch.contracts][:8], want=[c.symbol for c in members][:8])
    objs = {"A": ETF("A"), "B": Stock("B"), "I": Index("I"), "SPY": ETF("SPY")}
    for c in ch1.contracts:
        objs[c.symbol] = c
    ex = Exchange()
    model = {}
    t = datetime(2019, 1, 2)
    AbstractContract.now = t
    ops = []
    dead_then_quote = False
    chain_after_roll = False
    lead0 = None

    def m(sym):
        return model.setdefault(sym, {"bid": NAN, "ask": NAN, "alive": True, "hist": []})

    n_ops = rng.randint(5, 80)
    full = rng.random() < 0.5
    # quotes typed as Python ints / numpy ints / numpy float32 (the package's own examples quote in ints): prices
    # are whatever number type the feed delivers
    qtype = rng.choice(["float", "float", "float", "int", "npint", "f32"])
    ctx.cat("quote-type:" + qtype)
    ctx.cat("query:all-keys-every-op" if full else "query:sparse")
    for step in range(n_ops):
        t += timedelta(days=rng.choice([0, 0, 1, 3, 20]), seconds=rng.choice([0, 1, 3600]))
        if t > datetime(2020, 8, 1):
            t = datetime(2020, 8, 1)
        AbstractContract.now = t
        lead = [c for c in members if c.last_trading_date - roll_td > t][0]
        if lead0 is None:
            lead0 = lead
        op = rng.choice(["q", "q", "q", "disc", "chainq", "strq"])
        sym = rng.choice(list(objs))
        b = rng.choice([rng.uniform(1, 100), rng.uniform(1, 100), NAN])
        a = b + rng.choice([0, 0.5]) if b == b else rng.choice([NAN, rng.uniform(1, 100)])
        if qtype in ("int", "npint"):
            b = rng.randint(1, 100)
            a = b + rng.choice([0, 1, 3, 4])
            if qtype == "npint":
                b, a = np.int64(b), np.int64(a)
        elif qtype == "f32" and b == b and a == a:
            b, a = np.float32(b), np.float32(a)
            if a < b:
                a = b
        via = rng.random() < 0.5
        if qtype == "float" and op != "disc" and rng.random() < 0.25:
            # only one side changes: the other repeats EXACTLY the book's current value
            tgt0 = lead.symbol if op == "chainq" else sym
            cur = model.get(tgt0)
            if cur and cur["bid"] == cur["bid"] and cur["ask"] == cur["ask"]:
                if rng.random() < 0.5:
                    b, a = cur["bid"], cur["bid"] + rng.uniform(0, 3)
                else:
                    b, a = max(cur["ask"] - rng.uniform(0, 3), 0.01), cur["ask"]
                ctx.cat("quote:one-side-only")
        ctx.cat("op:" + op)
        if op == "disc":
            e = EventContractDiscontinued(t, objs[sym])
            (e.notify([ex]) if via else ex.process_EventContractDiscontinued(e))
            m(sym).update(bid=NAN, ask=NAN, alive=False)
            ops.append(["disc", sym])
        else:
            if op == "q":
                key, tgt = objs[sym], sym
            elif op == "chainq":
                key, tgt = ch, lead.symbol
                if lead is not lead0:
                    chain_after_roll = True
                    ctx.cat("chain-after-roll")
            else:
                key, tgt = sym, sym
            te = t
            if not m(tgt)["alive"] and rng.random() < 0.5:
                # a LATE print for a contract that is already discontinued, stamped before the discontinuation
                te = t - timedelta(days=rng.choice([1, 30]), seconds=rng.choice([0, 1]))
                ctx.cat("late-print-stamped-before-discontinuation")
            if isinstance(key, str):
                e = EventNBBO.__new__(EventNBBO)
                e.time, e.contract, e.bid_price, e.ask_price = te, key, b, a
                e.mid_price = (a + b) / 2
                e.bid_size = e.ask_size = np.inf
            elif key is ch and rng.random() < 0.5:
                # a feed prepared up front: the event object is BUILT while the process clock still stands at the
                # start of the data (before any roll) and PROCESSED when its time has come
                AbstractContract.now = rng.choice([datetime.min, datetime(2019, 1, 2)])
                e = EventNBBO(te, key, b, a)
                AbstractContract.now = t
                ctx.cat("chain-quote-built-before-roll")
            else:
                e = EventNBBO(te, key, b, a)
            (e.notify([ex]) if via else ex.process_EventNBBO(e))
            mm = m(tgt)
            if mm["alive"]:
                mm.update(bid=b, ask=a)
                mm["hist"].append((t, b, a))
            else:
                dead_then_quote = True
                ctx.cat("quote-after-death")
            ops.append([op, tgt, b, a])
        # ---- compare the books -------------------------------------------- #
        # (books are created lazily on first access: in half of the cases only a random
        #  subset is queried after each operation, so first-touch orders vary; everything
        #  is compared after the last operation)
        last = step == n_ops - 1
        subset = list(objs.items()) if (full or last) else [kv for kv in objs.items() if rng.random() < 0.3]
        for s_, o in subset:
            mm = m(s_)
            lob_o = ex[o]
            lob_s = ex[s_]
            ctx.check("C14:string-key-same-book", lob_o is lob_s, symbol=s_)
            lob = lob_o
            if rng.random() < 0.03:
                # a query the book refuses (an unknown field), caught by the caller: the book goes on as before
                try:
                    lob.to_frame("last_price")
                except Exception:
                    pass
                ctx.cat("refused-query-then-carry-on")
            ctx.check("C14:price", same(lob.bid_price, mm["bid"]) and same(lob.ask_price, mm["ask"]) and
                      same(lob.mid_price, (mm["ask"] + mm["bid"]) / 2),
                      symbol=s_, step=step, got=[lob.bid_price, lob.ask_price], want=[mm["bid"], mm["ask"]])
            ctx.check("C14:alive", lob.is_alive == mm["alive"], symbol=s_)
            h = list(zip(lob.history["time"], lob.history["bid_price"], lob.history["ask_price"]))
            okh = len(h) == len(mm["hist"]) and all(
                x[0] == y[0] and same(x[1], y[1]) and same(x[2], y[2]) for x, y in zip(h, mm["hist"]))
            okh = okh and len(lob.history["mid_price"]) == len(h)
            ctx.check("C14:history", okh, symbol=s_, got=len(h), want=len(mm["hist"]))
            tiny = rng.choice([1e-8, 1e-9, 1e-12, 5e-324])
            ctx.check("C14:sides", same(lob.acq_price(tiny), mm["ask"]) and same(lob.acq_price(-tiny), mm["bid"])
                      and same(lob.liq_price(tiny), mm["bid"]) and same(lob.liq_price(-tiny), mm["ask"]), symbol=s_, tiny=tiny)
            ctx.check("C14:sides", same(lob.acq_price(1), mm["ask"]) and same(lob.acq_price(-1), mm["bid"])
                      and same(lob.liq_price(1), mm["bid"]) and same(lob.liq_price(-1), mm["ask"])
                      and same(lob.acq_price(0), (mm["ask"] + mm["bid"]) / 2)
                      and same(lob.liq_price(0), (mm["ask"] + mm["bid"]) / 2), symbol=s_)
        if roll_td == timedelta(0) and rng.random() < 0.3:
            # a term-structure look-up (the contract AFTER the lead) on the same chain object at the same instant, right
            # before the chain is used as a key
            try:
                ch.lead_contract(month=rng.choice([1, 2]))
                ctx.cat("offset-lookup-before-chain-key")
            except IndexError:
                pass
        ctx.check("C14:chain-key-is-lead", ex[ch] is ex[lead] and ex[ch] is ex[lead.symbol], lead=lead.symbol, now=t)
        second = [c for c in ch1.contracts if c.last_trading_date > t][1]
        ctx.check("C14:chain-key-is-lead", ex[ch1] is ex[second], second=second.symbol, now=t, offset=1)
        keys = [o for _, o in subset] or list(objs.values())[:1]
        if rng.random() < 0.3:
            # only books that have been quoted (with integer quotes the arrays then hold no NaN)
            quoted = [k for k in keys if m(k.symbol)["bid"] == m(k.symbol)["bid"] and m(k.symbol)["ask"] == m(k.symbol)["ask"]]
            keys = quoted or keys
        signs = np.array([rng.choice([-1.0, 1.0, 0.0]) for _ in keys])
        if rng.random() < 0.3:
            signs = signs.astype(int)

        def midm(k):
            return (m(k.symbol)["ask"] + m(k.symbol)["bid"]) / 2

        okv = all(same(x, m(k.symbol)["bid"]) for x, k in zip(ex.bid_prices(keys), keys)) and \
            all(same(x, m(k.symbol)["ask"]) for x, k in zip(ex.ask_prices(keys), keys)) and \
            all(same(x, midm(k)) for x, k in zip(ex.mid_prices(keys), keys)) and \
            all(same(x, m(k.symbol)["ask"] if s > 0 else m(k.symbol)["bid"] if s < 0 else midm(k))
                for x, k, s in zip(ex.acq_prices(keys, signs), keys, signs)) and \
            all(same(x, m(k.symbol)["bid"] if s > 0 else m(k.symbol)["ask"] if s < 0 else midm(k))
                for x, k, s in zip(ex.liq_prices(keys, signs), keys, signs))
        ctx.check("C14:vectors", okv, step=step, signs=[float(x) for x in signs], quote_type=qtype,
                  got=[float(x) for x in ex.acq_prices(keys, signs)])
    ctx.nontrivial = dead_then_quote or chain_after_roll
    ctx.sample = {"chain": fcls.__name__, "ops": ops[:40], "n_ops": len(ops)}
