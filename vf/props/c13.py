"""C13 - missing prices fail loudly; a rebalance is all-or-nothing (BL + EP, fault enumeration)."""
import math
from datetime import datetime, timedelta

import numpy as np

from tradingenv.contracts import ETF, ES, ZN, Cash, AbstractContract, Future, FutureChain
from tradingenv.broker.broker import Broker, EndOfEpisodeError
from tradingenv.broker.trade import Trade
from tradingenv.broker.fees import BrokerFees
from tradingenv.broker.rebalancing import Rebalancing
from tradingenv.broker.allocation import Weights, NrContracts
from tradingenv.events import EventNBBO, EventContractDiscontinued

from vf import gen, monitor

NAN = float("nan")
PROP = "C13"
LEVEL = "fault_enumeration"
ENGINE = "BL+EP"
N = {"quick": 4000, "thorough": 300000}
TIME = {"quick": 300, "thorough": 420}
FAULTS = ["none", "bidnan", "asknan", "bothnan", "disc", "disc+requote", "never"]
RULE = ("Fault enumeration. (a) systematic: every fault kind {never quoted, bid-only, ask-only, both NaN, discontinued, "
        "discontinued-then-requoted, none} x position {long, short, flat} x {targeted long, targeted short, target 0, untargeted} "
        "on one contract beside a healthy one, spot and margined; (b) random multi-contract fault combinations injected into broker "
        "histories and into TradingEnv episodes; (c) failpoints: an exception raised (sys.monitoring LINE) at every line, 1st/2nd/3rd "
        "hit, of every function defined in broker/rebalancing.py, broker/allocation.py and broker/trade.py (found by location, not "
        "by name) during a three-trade rebalance. Oracle: a non-zero position without its liquidation side makes every valuation entry point raise (never a number "
        "or NaN); flat positions never need a quote; a rebalance needing a missing side raises, a fully quoted one succeeds, and "
        "whenever it raises zero Broker.transact calls happened and positions and len(track_record) are unchanged. Non-trivial = at "
        "least one fault on a held or targeted contract.")
ASSUMPTIONS = ["'in-between' cases (needed side present, other side missing) may raise or not, but must be atomic",
               "interest for the elapsed period may already have been credited when a rebalance raises (stated by the property)"]
REQUIRED = ["C13:valuation-raises-when-missing", "C13:valuation-ok-when-flat", "C13:rebalance-raises-when-missing",
            "C13:rebalance-ok-when-quoted", "C13:atomic-on-failure", "C13:failpoint-atomic", "C13:episode-atomic",
            "C13:episode-fault-raises", "C13:episode-raises-only-when-needed"]
REQUIRED_CATS = ["contract-announces-its-own-discontinuation:through-a-chain", "measure:weight", "measure:nr-contracts", "closed-with-float-residual", "episode-fault-latent", "episode-1", "episode-quotes-from-table", "request-previewed-before-faults", "account-cloned-after-faults", "request-with-threshold:nr-contracts"]
REQUIRED_HITS = ["Broker.transact", "Broker.rebalance", "Rebalancing.make_trades"]
TECHNIQUE = "runtime monitoring with fault injection: enumerated quote faults and sys.monitoring failpoints, atomicity asserted via the Broker.transact hook"
LEVEL_TEXT = ("Fault enumeration. All single-contract fault kinds x position x target combinations are enumerated against the real "
              "Broker; random multi-fault histories and episodes widen it; failpoints raise at every line of the trade-building code. "
              "The Broker.transact hook counts executions so 'failed before any trade' is observed, not inferred.")
LEVEL_NOTE = ("Trusted: sys.monitoring line events (statement starts only). Mutation audit: NaN valued as 0, NaN check dropped from "
              "Trade, trades transacted while the list is being built, dead book revived are caught.")


class TransactCounter(monitor.Recorder):
    def __init__(self):
        super().__init__()
        self.n = 0

    def pre_Broker_transact(self, b, a, k):
        self.n += 1

    def pre_Broker_rebalance(self, b, a, k):
        self.n_at_rebalance = self.n
        self.rebalance_raised = None

    def post_Broker_rebalance(self, b, a, k, tok, res, exc):
        self.rebalance_raised = exc
        self.n_in_rebalance = self.n - self.n_at_rebalance


def apply_fault(ex, t, c, f, q):
    if f == "bidnan":
        q[c] = (NAN, q[c][1])
        ex.process_EventNBBO(EventNBBO(t, c, *q[c]))
    elif f == "asknan":
        q[c] = (q[c][0], NAN)
        ex.process_EventNBBO(EventNBBO(t, c, *q[c]))
    elif f == "bothnan":
        q[c] = (NAN, NAN)
        ex.process_EventNBBO(EventNBBO(t, c, *q[c]))
    elif f.startswith("disc"):
        ex.process_EventContractDiscontinued(EventContractDiscontinued(t, c))
        q[c] = (NAN, NAN)
        if f.endswith("requote"):
            ex.process_EventNBBO(EventNBBO(t, c, 50.0, 51.0))


def judge(ctx, b, ex, cs, q, tgt, t, label, intended=None, request=None):
    """Valuation and rebalance oracles on the broker `b` whose true quotes are q.
    `intended` = the positions the harness built (sum of its trades, dust = flat)."""
    pos = b.holdings_quantity
    if intended is not None:
        ok = all(abs(pos.get(c, 0.0) - intended.get(c, 0.0)) <= 1e-9 * max(1.0, abs(intended.get(c, 0.0))) and
                 (intended.get(c, 0.0) != 0.0 or pos.get(c, 0.0) == 0.0) for c in cs)
        ctx.check("C13:positions-as-traded", ok, held={c.symbol: pos.get(c, 0.0) for c in cs},
                  intended={c.symbol: v for c, v in intended.items()})
        pos = dict(pos)
        pos.update(intended)

    def liqmissing(c):
        p = pos.get(c, 0.0)
        return (p > 0 and math.isnan(q[c][0])) or (p < 0 and math.isnan(q[c][1]))

    must_raise = any(liqmissing(c) for c in cs)
    entry = [("nlv", lambda: b.net_liquidation_value(False)), ("nlv-raise", lambda: b.net_liquidation_value()),
             ("values", lambda: b.holdings_values()), ("liqvalues", lambda: b.holdings_values("liquidation")),
             ("weights", lambda: b.holdings_weights()), ("context", lambda: b.context())]
    for name, fn in entry:
        try:
            v = fn()
            ok = True
        except EndOfEpisodeError:
            continue
        except Exception:
            ok = False
        if must_raise:
            ctx.check("C13:valuation-raises-when-missing", not ok, entry=name, value=repr(v)[:100] if ok else None, label=label)
        else:
            ctx.check("C13:valuation-ok-when-flat", ok, entry=name, label=label)
        if ok:
            vals = [v] if isinstance(v, float) else list(v.values()) if isinstance(v, dict) else [v.nlv]
            ctx.check("C13:no-nan-value", not any(isinstance(x, float) and math.isnan(x) for x in vals), entry=name)
    keys = list(tgt)
    measure = "weight"
    if request is None and ctx.rng.random() < 0.4 and not must_raise:
        # contract-count targets: the imbalance (and so the side needed) is known without prices
        measure = "nr-contracts"
        tgt = {c: (0 if w == 0 else pos.get(c, 0.0) + ctx.rng.choice([-1, 1]) * ctx.rng.uniform(0.5, 3)) for c, w in tgt.items()}
    ctx.cat("measure:" + measure)
    # (with or without a trading threshold: a leg that cannot be priced is never 'below the threshold')
    thr_ = ctx.rng.choice([0, 0, 0.05, 0.3])
    if thr_:
        ctx.cat("request-with-threshold:" + measure)
    r = Rebalancing(keys, [tgt[k] for k in keys], measure=measure, margin=thr_, time=t + timedelta(days=1))
    if request is not None:
        r = request         # built (and previewed) by the caller BEFORE the quotes were lost

    def both(c):
        return not math.isnan(q[c][0]) and not math.isnan(q[c][1])

    involved = [c for c in cs if pos.get(c, 0.0) != 0 or tgt.get(c, 0) != 0]
    if measure == "weight":
        need_missing = must_raise or any(
            (tgt.get(c, 0) > 0 and math.isnan(q[c][1])) or (tgt.get(c, 0) < 0 and math.isnan(q[c][0])) for c in cs)
    else:
        need_missing = must_raise
        for c in cs:
            imb = tgt.get(c, 0) - pos.get(c, 0.0)
            if (imb > 0 and math.isnan(q[c][1])) or (imb < 0 and math.isnan(q[c][0])):
                need_missing = True
    all_ok = all(both(c) for c in involved)
    n0 = len(b.track_record)
    with TransactCounter() as cnt:
        try:
            b.rebalance(r)
            ok = True
        except EndOfEpisodeError:
            return
        except Exception:
            ok = False
        ntr = cnt.n
    if need_missing:
        ctx.check("C13:rebalance-raises-when-missing", not ok, label=label, targets={k.symbol: v for k, v in tgt.items()})
    if all_ok:
        ctx.check("C13:rebalance-ok-when-quoted", ok, label=label)
    if not need_missing and not all_ok:
        ctx.cat("in-between:" + ("ok" if ok else "raised"))
    if not ok:
        h = b.holdings_quantity
        same = all(h.get(c, 0.0) == pos.get(c, 0.0) for c in cs)
        ctx.check("C13:atomic-on-failure", ntr == 0 and len(b.track_record) == n0 and same,
                  transacts=ntr, records=len(b.track_record) - n0, label=label)


# ---- systematic enumeration ------------------------------------------------ #
POSN = ["long", "short", "flat"]
TGTS = ["tlong", "tshort", "tzero", "absent"]
KINDS = ["spot", "margined"]
_FP_POINTS = None


def _combos():
    return [(f, p, g, k) for f in FAULTS for p in POSN for g in TGTS for k in KINDS]


def _fp_codes():
    """Code objects of the trade-building code, found by LOCATION (every function and method defined in
    broker/rebalancing.py, broker/allocation.py and broker/trade.py), not by name: private helpers may be
    renamed, split or merged without the check noticing."""
    import inspect
    import tradingenv.broker.allocation as m_al
    import tradingenv.broker.rebalancing as m_rb
    import tradingenv.broker.trade as m_tr
    codes = []
    for m in (m_rb, m_al, m_tr):
        fns = [f for _, f in inspect.getmembers(m, inspect.isfunction) if f.__module__ == m.__name__]
        for _, cls in inspect.getmembers(m, inspect.isclass):
            if cls.__module__ != m.__name__:
                continue
            for f in vars(cls).values():
                if isinstance(f, property):
                    f = f.fget
                f = getattr(f, "__func__", f)
                f = getattr(f, "__wrapped__", f)
                if inspect.isfunction(f):
                    fns.append(f)
        for f in fns:
            c = f.__code__
            if c not in codes and c.co_filename == getattr(m, "__file__", None):
                codes.append(c)
    return sorted(codes, key=lambda c: (c.co_filename, c.co_firstlineno))


def _always_judged(code):
    """Injections in rebalancing.py / allocation.py and in Trade.__init__ are failures 'while the trades are
    being computed' wherever they happen; other code of trade.py also runs while a trade is EXECUTED, and an
    injection there is judged only if no execution had begun."""
    fn = code.co_filename.replace("\\", "/")
    return fn.endswith("broker/rebalancing.py") or fn.endswith("broker/allocation.py") or code.co_qualname == "Trade.__init__"


def _fp_points():
    global _FP_POINTS
    if _FP_POINTS is None:
        pts = []
        for c in _fp_codes():
            lines = sorted({x[2] for x in c.co_lines() if x[2] and x[2] > c.co_firstlineno})
            pts.extend((c, l) for l in lines)
        _FP_POINTS = pts
    return _FP_POINTS


def sys_count(tier):
    return len(_combos()) + len(_fp_points())


def exhaustive(tier):
    return False


def sys_case(ctx, j, tier):
    combos = _combos()
    if j >= len(combos):
        return failpoint_case(ctx, j - len(combos))
    f, p, g, k = combos[j]
    t = datetime(2019, 1, 1)
    fees = BrokerFees()
    ex = gen.new_exchange(t, fees)
    c = ETF("X") if k == "spot" else ES(2019, 6)
    healthy = ETF("H")
    q = {healthy: (99.9, 100.1)}
    ex.process_EventNBBO(EventNBBO(t, healthy, *q[healthy]))
    b = Broker(ex, deposit=1e7)
    if f == "never":
        q[c] = (NAN, NAN)
        if p != "flat":
            ctx.cat("enumeration:skipped-cannot-hold-unquoted")
            ctx.sample = {"fault": f, "position": p, "target": g, "kind": k, "skipped": True}
            return
    else:
        q[c] = (49.9, 50.1)
        ex.process_EventNBBO(EventNBBO(t, c, *q[c]))
        if p != "flat":
            b.transact(Trade(t, c, 3.0 if p == "long" else -3.0, *q[c]))
    b.transact(Trade(t, healthy, 5.0, *q[healthy]))
    apply_fault(ex, t, c, f, q)
    tgt = {healthy: 0.2}
    if g == "tlong":
        tgt[c] = 0.1
    elif g == "tshort":
        tgt[c] = -0.1
    elif g == "tzero":
        tgt[c] = 0
    judge(ctx, b, ex, [c, healthy], q, tgt, t, label="{}/{}/{}/{}".format(f, p, g, k))
    ctx.cat("enumeration", "fault:" + f)
    ctx.nontrivial = f != "none" and (p != "flat" or g in ("tlong", "tshort"))
    ctx.sample = {"fault": f, "position": p, "target": g, "kind": k}


def failpoint_case(ctx, j):
    pts = _fp_points()
    code, line = pts[j]
    fp = monitor.Failpoints([code])
    injected = 0
    ctx.cat("failpoint-sites:%d" % len(pts))
    try:
        for nth in (1, 2, 3):
            t = datetime(2019, 1, 1)
            fees = BrokerFees(proportional=1e-4)
            ex = gen.new_exchange(t, fees)
            A, B_, C = ETF("A"), ETF("B"), ES(2019, 6)
            for c, px in ((A, 10.0), (B_, 20.0), (C, 30.0)):
                ex.process_EventNBBO(EventNBBO(t, c, px * 0.999, px * 1.001))
            b = Broker(ex, deposit=1e6, fees=fees)
            b.rebalance(Rebalancing([A, B_], [0.3, 0.3], time=t))
            h0 = b.holdings_quantity
            n0 = len(b.track_record)
            with TransactCounter() as cnt:
                fp.arm((code, line), nth)
                try:
                    b.rebalance(Rebalancing([A, B_, C], [0.1, 0.5, -0.2], time=datetime(2019, 1, 2)))
                    res = "ok"
                except monitor.Injected:
                    res = "inj"
                finally:
                    fp.disarm()
            if res == "inj" and cnt.n > 0 and not _always_judged(code):
                ctx.cat("failpoint-after-execution-began")
            elif res == "inj":
                injected += 1
                h1 = b.holdings_quantity
                ctx.check("C13:failpoint-atomic",
                          cnt.n == 0 and len(b.track_record) == n0 and all(h1.get(c) == h0.get(c) for c in (A, B_, C)),
                          point="{}:{}".format(code.co_qualname, line), nth=nth, transacts=cnt.n)
                ctx.cat("failpoint-injected")
            else:
                ctx.check("C13:failpoint-unreached-rebalance-complete", len(b.track_record) == n0 + 1 and cnt.n == 3,
                          point="{}:{}".format(code.co_qualname, line), nth=nth, transacts=cnt.n)
    finally:
        fp.close()
    ctx.nontrivial = injected > 0
    ctx.sample = {"failpoint": "{}:{}".format(code.co_qualname, line), "injections": injected}


# ---- random histories and episodes ----------------------------------------- #
def case(ctx, i, tier):
    if i % 5 == 4:
        return episode_case(ctx)
    rng = ctx.rng
    pool = [ETF("A"), ETF("B"), ES(2019, 6), ZN(2019, 9), ETF("C"), gen.SpotMult("L10", 10.0), gen.UserFuture("F1", 5, 0.3), gen.UserSpot("U3", 3.0), gen.AssetFuture("AF", 20, 0.2)]
    rng.shuffle(pool)
    cs = pool[: rng.randint(2, 4)]
    t = datetime(2019, 1, 1)
    fees = BrokerFees()
    ex = gen.new_exchange(t, fees)
    q = {}
    never = set(c for c in cs if rng.random() < 0.2)
    for c in cs:
        if c in never:
            q[c] = (NAN, NAN)
            continue
        mid = rng.choice([20, 100, 2500])
        q[c] = (mid * 0.999, mid * 1.001)
        ex.process_EventNBBO(EventNBBO(t, c, *q[c]))
    b = Broker(ex, deposit=1e7)
    intended = {c: 0.0 for c in cs}
    for c in cs:
        if c not in never and rng.random() < 0.6:
            if rng.random() < 0.25:
                # opened and closed again by parts whose floats do not cancel exactly (100.1 + 200.2 - 300.3):
                # the residual (~1e-14 contracts) is dust - the position is flat and needs no quote
                sgn = rng.choice([-1, 1])
                for part in (100.1, 200.2, -300.3):
                    b.transact(Trade(t, c, sgn * part, *q[c]))
                ctx.cat("closed-with-float-residual")
            else:
                intended[c] = rng.choice([-1, 1]) * rng.uniform(1, 5)
                b.transact(Trade(t, c, intended[c], *q[c]))
    tgt = {c: rng.choice([0, 0, rng.uniform(-0.3, 0.3)]) for c in cs if rng.random() < 0.8}
    request = None
    if rng.random() < 0.3:
        # the request is built, and its trades previewed, while every quote is still there; the quotes are lost
        # afterwards and the SAME request object is then handed to the broker
        request = Rebalancing(list(tgt), [tgt[k] for k in tgt], time=t + timedelta(days=1))
        try:
            request.make_trades(b)
        except Exception:
            pass
        ctx.cat("request-previewed-before-faults")
    faults = {}
    for c in cs:
        f = rng.choice(["none", "none", "bidnan", "asknan", "bothnan", "disc", "disc+requote"])
        faults[c] = "never" if c in never else f
        apply_fault(ex, t, c, f, q)
        ctx.cat("fault:" + faults[c])
    pos = dict(b.holdings_quantity)
    pos.update(intended)
    if request is None and rng.random() < 0.3:
        # the account (with its exchange) is CLONED after the quotes were lost - deep copy, or pickled and restored
        # (a checkpoint, a worker process) - and a late print for every discontinued contract reaches the clone: the
        # clone is judged exactly like the original (a discontinued contract stays without price)
        import copy
        import pickle
        b = copy.deepcopy(b) if rng.random() < 0.5 else pickle.loads(pickle.dumps(b))
        ex = b.exchange
        for c in cs:
            if faults[c].startswith("disc"):
                ex.process_EventNBBO(EventNBBO(t + timedelta(hours=rng.choice([-1, 1])), c, 50.0, 51.0))
        ctx.cat("account-cloned-after-faults")
    judge(ctx, b, ex, cs, q, tgt, t, label="random", intended=intended, request=request)
    ctx.nontrivial = any(f != "none" and (pos.get(c, 0.0) != 0 or tgt.get(c, 0) != 0) for c, f in faults.items())
    ctx.sample = {"contracts": [c.symbol for c in cs], "faults": {c.symbol: f for c, f in faults.items()},
                  "positions": {c.symbol: pos.get(c, 0.0) for c in cs}, "targets": {c.symbol: v for c, v in tgt.items()}}


class WK(Future):
    """A user-defined future whose book closes when the USER says so (make_events overridden), e.g. on the last trading
    date instead of the settlement date."""
    freq = "QE-DEC"
    multiplier = 50.0
    margin_requirement = 0.1
    closes = {}

    def _get_expiry_date(self, year, month):
        return datetime(year, month, 20)

    def _get_last_trading_date(self, expiry):
        return expiry - timedelta(days=5)

    def make_events(self):
        return [EventContractDiscontinued(time=self.closes.get(self.symbol, self.expiry), contract=self)]


def episode_case(ctx):
    """Faults injected through the event stream of a real TradingEnv, with and without latency, over
    two episodes of the same environment.  A delivery model says from which step on the fault is in
    effect (fault stamped at timestep kf, or within the latency after it); the oracle then demands a
    loud failure exactly when a position whose liquidation side is gone is held, or a both-sides-gone
    contract is targeted, and silence otherwise."""
    from tradingenv.env import TradingEnv
    from tradingenv.spaces import BoxPortfolio
    from tradingenv.transmitter import Transmitter
    rng = ctx.rng
    cs = [ETF("A"), ETF("B"), ES(2021, 3)][: rng.randint(2, 3)]
    own = rng.random() < 0.2
    cs_space = list(cs)
    if own:
        # a user-defined future that announces ITS OWN discontinuation (make_events overridden: the book closes at a
        # time of the user's choosing, before the expiry), traded directly or through a chain: the environment asks the
        # contracts of the action space for their events, nobody adds the discontinuation by hand
        wk1, wk2 = WK(2020, 9), WK(2020, 12)
        AbstractContract.now = datetime.min
        cs = cs[:2] + [wk1]
        via_chain = rng.random() < 0.6
        cs_space = cs[:2] + [FutureChain(contracts=[wk1, wk2]) if via_chain else wk1]
        ctx.cat("contract-announces-its-own-discontinuation" + (":through-a-chain" if via_chain else ""))
    n = rng.randint(5, 10)
    t0 = datetime(2020, 6, 1, 12)
    grid = [t0 + timedelta(days=k) for k in range(n)]
    evs = []
    kf = rng.randint(1, n - 2)          # timestep at (or just after) which the fault event is stamped
    cf = rng.choice(cs)
    f = rng.choice(["bidnan", "asknan", "bothnan", "disc", "missing-from-now-on"])
    L = rng.choice([0, 0, 10, 3600])
    off = rng.choice([0, L / 2.0])      # > 0: the fault is a latent event of timestep kf
    if own:
        cf, f = cs[-1], "disc"
        WK.closes[cf.symbol] = grid[kf] + timedelta(seconds=off)
    px = {c: rng.choice([20.0, 100.0, 2500.0]) for c in cs}
    for k, t in enumerate(grid):
        for c in cs:
            px[c] *= math.exp(rng.gauss(0, 0.01))
            bid, ask = px[c] * 0.999, px[c] * 1.001
            if c is cf and k >= kf:
                if k == kf and off > 0:
                    evs.append(EventNBBO(t, c, bid, ask))      # a good quote first, the fault shortly after
                    t = t + timedelta(seconds=off)
                if f == "bidnan":
                    bid = NAN
                elif f == "asknan":
                    ask = NAN
                elif f == "bothnan":
                    bid = ask = NAN
                elif f == "disc":
                    if k == kf and not own:
                        evs.append(EventContractDiscontinued(t, c))
                    continue
                elif f == "missing-from-now-on":
                    continue
            evs.append(EventNBBO(t, c, bid, ask))
    tr = Transmitter(grid)
    if rng.random() < 0.35:
        # the quotes come from a bid/ask TABLE (one row per quote: contract, bid_price, ask_price; a NaN cell is a lost
        # side) through the generic table loader - the only tabular way to feed two-sided quotes
        import pandas as pd
        nb = [e for e in evs if isinstance(e, EventNBBO)]
        tr.add_events([e for e in evs if not isinstance(e, EventNBBO)])
        tr.add_custom_events(pd.DataFrame({"contract": [e.contract for e in nb], "bid_price": [e.bid_price for e in nb],
                                           "ask_price": [e.ask_price for e in nb]},
                                          index=pd.DatetimeIndex([e.time for e in nb])), EventNBBO)
        ctx.cat("episode-quotes-from-table")
    else:
        tr.add_events(evs)
    kw = dict(latency=L) if L else {}
    env = TradingEnv(action_space=BoxPortfolio(cs_space, -1, 1), transmitter=tr, initial_cash=1e6,
                     broker_fees=BrokerFees(proportional=1e-4), **kw)
    icf = cs.index(cf)

    def liqmissing(p):
        return p != 0 and (f in ("bothnan", "disc") or (f == "bidnan" and p > 0) or (f == "asknan" and p < 0))

    raised_total = 0
    for episode in range(2):
        env.reset()
        done = False
        j = 0                   # index of the timestep the environment stands at
        attempts = 0
        raised = 0
        while not done and attempts < n + 3 and raised < 3:
            attempts += 1
            a = np.array([rng.choice([0.0, rng.uniform(-0.4, 0.4)]) for _ in cs])
            if abs(a[icf]) < 1e-3:
                a[icf] = 0.0
            h0 = env.broker.holdings_quantity
            n0 = len(env.broker.track_record)
            p0 = h0.get(cf, 0.0)
            in_effect = j >= kf                                  # at the time the rebalance executes
            with TransactCounter() as cnt:
                try:
                    o, r, done, info = env.step(a)
                    ok = True
                except EndOfEpisodeError:
                    break
                except Exception:
                    ok = False
            reb = getattr(cnt, "rebalance_raised", "never-called")
            must_reb = in_effect and (liqmissing(p0) or (a[icf] != 0 and f in ("bothnan", "disc")))
            may_reb = in_effect and f in ("bidnan", "asknan") and (p0 != 0 or a[icf] != 0)
            d = dict(step=attempts, timestep=j, fault=f, fault_at=kf, latency=L, offset=off, episode=episode,
                     held=p0, target=float(a[icf]))
            if reb not in (None, "never-called"):
                # the rebalance itself raised
                raised += 1
                h1 = env.broker.holdings_quantity
                ctx.cat("episode:raised-in-rebalance")
                ctx.check("C13:episode-atomic", cnt.n == 0 and len(env.broker.track_record) == n0 and
                          all(h1.get(c, 0.0) == h0.get(c, 0.0) for c in cs), transacts=cnt.n, **d)
                ctx.check("C13:episode-raises-only-when-needed", must_reb or may_reb, where="rebalance", **d)
                continue          # the caller catches it and carries on: the environment has not moved
            ctx.check("C13:episode-fault-raises", not must_reb, where="rebalance", **d)
            if reb == "never-called":
                break
            j += 1
            p1 = env.broker.holdings_quantity.get(cf, 0.0)
            held_bad = j >= kf + (1 if off > 0 else 0) and liqmissing(p1)
            if not ok:
                # the rebalance went through; the step failed later, while valuing the account after the faulty
                # quote arrived (correct: valuation must raise rather than value at zero/NaN)
                raised += 1
                ctx.cat("episode:raised-in-valuation-after-rebalance")
                ctx.check("C13:episode-record-kept", len(env.broker.track_record) == n0 + 1, **d)
                ctx.check("C13:episode-raises-only-when-needed", held_bad, where="valuation", held_after=p1, **d)
            try:
                v = env.broker.net_liquidation_value(False)
                ctx.check("C13:no-nan-value", not math.isnan(v), **d)
                ctx.check("C13:episode-fault-raises", not held_bad, where="valuation", held_after=p1, **d)
            except EndOfEpisodeError:
                break
            except Exception:
                ctx.cat("episode:valuation-raises-after-fault")
                ctx.check("C13:episode-raises-only-when-needed", held_bad, where="valuation-call", held_after=p1, **d)
        raised_total += raised
        ctx.cat("episode-%d" % episode)
    ctx.cat("episode", "episode-fault:" + f, "episode-raised" if raised_total else "episode-completed",
            "episode-latency" if L else "episode-no-latency", "episode-fault-latent" if off > 0 else "episode-fault-on-timestep")
    ctx.nontrivial = True
    ctx.sample = {"episode": True, "fault": f, "fault_step": kf, "contract": cf.symbol, "latency": L, "offset": off}
