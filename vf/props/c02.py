"""C02 - no look-ahead (engines EP + XY, twin runs with a perturbed future)."""
import math
import random
from datetime import datetime, timedelta

import gymnasium
import numpy as np
import pandas as pd

from tradingenv.env import TradingEnv, TradingEnvXY
from tradingenv.contracts import ETF, ES
from tradingenv.spaces import BoxPortfolio
from tradingenv.transmitter import Transmitter
from tradingenv.events import EventNBBO
from tradingenv.state import IState
from tradingenv.features import Feature
from tradingenv.library import FeatureSpread
from tradingenv.broker.fees import BrokerFees

from vf import alone, ep, gen

PROP = "C02"
LEVEL = "exploration"
ENGINE = "EP+XY"
N = {"quick": 600, "thorough": 40000}
TIME = {"quick": 300, "thorough": 540}
RULE = ("Twin runs. Stream S and S' = S with the VALUES (prices, payloads, table cells) of everything stamped after a cut perturbed, "
        "timestamps and insertion order untouched; a fixed pre-drawn action sequence. Per call the digest of (observation incl. a "
        "feature with memory, reward, done, executed trades with bid/ask, holdings, NLV, track-record length, the recording "
        "observer's delivery log) must be identical for every call landing on a timestep <= cut; with the perturbation starting after "
        "cut+latency also the trades of the following step. Generic streams: grids with gaps 60 s..7 d, a quote per contract per "
        "timestep plus extra quotes and custom events at L-0.5s/L/L+0.5s, latency {0,10 s}, delay 0-2, late folds (history replay), "
        "warm-up, markov reset, cuts at first/middle/last step. Tabular (every 10th case): random daily tables with NaNs, transformer "
        "{none,z-score,yeo-johnson} fitted up to a date <= cut, window 1-5, rate series; X, Y and rate rows after the cut perturbed "
        "(values and, except on the last two rows, NaN pattern). Non-trivial = at least one compared call and at least one perturbed "
        "event before the end of the episode.")
ASSUMPTIONS = ["value perturbations only: adding/removing future timestamps legitimately changes `done`"]
REQUIRED = ["C02:no-lookahead", "C02:next-trades-independent-of-future", "C02:xy-no-lookahead"]
REQUIRED_CATS = ["process-in-a-dst-time-zone", "decision-refused-then-resubmitted", "earlier-episode-on-a-later-window", "xy-features-stamped-intraday", "xy-twin-in-fresh-interpreter", "xy-rate-off-price-dates", "transmitter-used-before-with-larger-latency", "xy-prefitted-transformer", "custom-events-from-table", "xy-sparse-features", "generic", "xy", "xy-nan-straddles-cut", "xy-row-missing-at-cut", "cut:first", "cut:last", "latency>0", "late-fold", "markov", "warmup"]
TECHNIQUE = "runtime monitoring: twin executions on streams that agree up to the cut, compared call by call on canonical digests (tabular twins partly run in a fresh interpreter)"
LEVEL_TEXT = ("Exploration by twin runs: the same real environment is executed on two inputs that agree on everything stamped <= t; any "
              "difference in an output landing at or before t is a witness of look-ahead. Fixed actions prevent a leak from hiding "
              "behind a policy.")
LEVEL_NOTE = ("Trusted: digest function. Mutation audit: slot chosen with bisect_right, next batch processed early, ffill -> bfill, "
              "transformer / reward scale fitted past transformer_end, prefetched events applied before the reward are caught.")


class FA(Feature):
    def __init__(self):
        self.acc = 0.0
        super().__init__(space=gymnasium.spaces.Box(-np.inf, np.inf, (1, 1), float), name="FA")

    def process_EvA(self, event):
        self.acc = 0.5 * self.acc + event.v

    def process_EventNBBO(self, event):
        self.acc += 1e-3 * event.bid_price

    def parse(self):
        return np.array([[self.acc]])


class PO(Feature):
    """A parse-only user feature (no event callback, like the library's own price / spread features) that keeps
    per-episode state between two observations: the running peak of the first contract's bid and an EMA of it."""

    def __init__(self, c=None):
        self.c = c
        self.peak = 0.0
        self.ema = None
        super().__init__(space=gymnasium.spaces.Box(-np.inf, np.inf, (1, 2), float), name="PO")

    def parse(self):
        ex = getattr(self, "exchange", None)
        if ex is not None:
            b = float(ex[self.c].bid_price)
            if b == b:
                self.peak = max(self.peak, b)
                self.ema = b if self.ema is None else 0.5 * self.ema + 0.5 * b
        return np.array([[self.peak, self.ema if self.ema is not None else 0.0]])


def run_generic(spec, pert_after=None, prng=None):
    grid, evspec, L, d, acts, cs, fold, markov, warm, table, Lfirst = spec[:11]
    prior = spec[11] if len(spec) > 11 else None
    refuse = spec[12] if len(spec) > 12 else None
    evs = []
    rows = []
    npert = 0
    for (kind, t, c, a, b, uid) in evspec:
        if pert_after is not None and t > pert_after:
            f = prng.uniform(0.9, 1.1)
            a = a * f
            b = (b * f if b is not None else None)
            npert += 1
        if kind == "q":
            e = EventNBBO(t, c, a, b)
            e.uid = uid
            evs.append(e)
        elif table:
            # published at t (the table index) about an EARLIER reference period (column 'time')
            rows.append((t, {"uid": uid, "v": a, "time": t - timedelta(days=1 + uid % 5)}))
        else:
            evs.append(ep.EvA(t, uid, a))
    folds = {"training-set": fold}
    if prior is not None:
        folds["later"] = [grid[prior], grid[-1]]
    tr = Transmitter(grid, folds, markov, warm)
    tr.add_events(evs)
    if rows:
        df = pd.DataFrame([r[1] for r in rows], index=pd.DatetimeIndex([r[0] for r in rows]))
        tr.add_custom_events(df, ep.EvA)
    if Lfirst is not None:
        # the transmitter was first used by ANOTHER environment with a larger latency (a latency sweep
        # on data loaded once); the environment under test is built afterwards
        TradingEnv(action_space=BoxPortfolio(cs, -1, 1), transmitter=tr, latency=Lfirst)
    sink = ep.Sink()
    env = TradingEnv(action_space=BoxPortfolio(cs, -1, 1), transmitter=tr,
                     state=ep.Rec(sink, features=[FA(), PO(cs[0])]),
                     latency=L, steps_delay=d, broker_fees=BrokerFees(proportional=1e-3), initial_cash=1e5)
    sink.env = env

    def obs_digest(o):
        return ep.odigest(o)

    def log_digest(lo):
        out = []
        for x in sink.log[lo:]:
            e = x[5]
            if isinstance(e, EventNBBO):
                out.append((x[0], x[1], x[2], float(e.bid_price).hex(), float(e.ask_price).hex()))
            elif isinstance(e, ep.EvA):
                out.append((x[0], x[1], x[2], float(e.v).hex()))
            else:
                out.append((x[0], x[1], x[2]))
        return tuple(out)

    if prior is not None:
        # an EARLIER use of the same environment: an episode over a window that starts later (a test fold evaluated
        # first), abandoned after a step or two; the episode under test then steps through that window's start
        try:
            env.reset("later")
            for k_ in range(2):
                if env.step(acts[k_])[2]:
                    break
        except Exception:
            pass
        del sink.log[:]
    out = []
    o = env.reset()
    out.append((obs_digest(o), None, None, None, float(env.broker.net_liquidation_value(False)).hex(), (), 0, log_digest(0)))
    done = ep.done_at_reset(env, sink)
    k = 0
    while not done:
        if k > len(grid) + 2:
            raise RuntimeError("step cap")
        lo = len(sink.log)
        if refuse is not None and k == refuse:
            # a decision the environment refuses (out of bounds), caught; the proper decision follows for the same
            # timestep - and is executed on what was known at that timestep, like any other
            try:
                env.step(np.full(len(cs), 9.0))
            except ValueError:
                pass
        o, r, done, info = env.step(acts[k])
        k += 1
        trades = tuple((str(t.contract), float(t.quantity).hex(), float(t.bid_price).hex(), float(t.ask_price).hex())
                       for t in info["_rebalancing"].trades)
        out.append((obs_digest(o), float(r).hex(), done, trades, float(env.broker.net_liquidation_value(False)).hex(),
                    tuple(sorted((str(c), float(q).hex()) for c, q in env.broker.holdings_quantity.items())),
                    len(env.broker.track_record), log_digest(lo)))
    return out, npert


def generic(ctx, dst=None):
    rng = ctx.rng
    cs = [ETF("A"), ETF("B"), ES(2021, 3)]
    rng.shuffle(cs)
    cs = cs[: rng.randint(1, 2)]
    n = rng.randint(3, 10)
    gaps = [rng.choice([60, 3600, 86400, 7 * 86400]) for _ in range(n - 1)]
    t0 = datetime(2020, 1, 1)
    if dst:
        # an intraday grid of plain (naive) datetimes over the night on which the local zone of the process skips an
        # hour: stamps are compared as they are, whatever the zone says about them
        gaps = [rng.choice([1800, 3600]) for _ in range(n - 1)]
        t0 = datetime(2019, 3, 9, 22) if "EST" in dst else datetime(2019, 3, 30, 23)
    grid = [t0]
    for g in gaps:
        grid.append(grid[-1] + timedelta(seconds=g))
    L = rng.choice([0, 10])
    d = rng.choice([0, 1, 2])
    ev = []
    uid = 0
    for k, t in enumerate(grid):
        for c in cs:
            p = rng.uniform(20, 22)
            uid += 1
            ev.append(("q", t, c, p, p * 1.001, uid))
        gap = gaps[min(k, n - 2)]
        for off in [L - 0.5, L, L + 0.5, L + 12, gap * 0.7]:
            if 0 < off < gap and k < n - 1 and rng.random() < 0.5:
                uid += 1
                if rng.random() < 0.5:
                    p = rng.uniform(20, 22)
                    ev.append(("q", t + timedelta(seconds=off), rng.choice(cs), p, p * 1.001, uid))
                else:
                    ev.append(("a", t + timedelta(seconds=off), None, rng.uniform(-1, 1), None, uid))
    rng.shuffle(ev)
    acts = [np.array([rng.uniform(-0.5, 0.5) for _ in cs]) for _ in range(n)]
    i0 = rng.choice([0, 0, rng.randint(0, n - 2)])
    fold = [grid[i0], grid[-1]]
    markov = rng.random() < 0.2
    warm = rng.choice([None, None, timedelta(seconds=rng.choice([30, 4000, 90000]))])
    table = rng.random() < 0.3
    if table:
        ctx.cat("custom-events-from-table")
    Lfirst = None
    if rng.random() < 0.25 and min(gaps) > 40:
        Lfirst = 30
        ctx.cat("transmitter-used-before-with-larger-latency")
    prior = None
    if n - i0 >= 4 and rng.random() < 0.3:
        prior = rng.randint(i0 + 1, n - 2)
        ctx.cat("earlier-episode-on-a-later-window")
    refuse = None
    if d == 0 and rng.random() < 0.25:
        refuse = rng.randint(0, max(0, n - i0 - 2))
        ctx.cat("decision-refused-then-resubmitted")
    spec = (grid, ev, L, d, acts, cs, fold, markov, warm, table, Lfirst, prior, refuse)
    steps = grid[i0:]
    base, _ = run_generic(spec)
    which = rng.choice(["first", "middle", "last"])
    kc = {"first": 0, "last": len(steps) - 1, "middle": rng.randint(0, len(steps) - 1)}[which]
    t = steps[kc]
    ctx.cat("generic", "cut:" + which)
    if L:
        ctx.cat("latency>0")
    if i0:
        ctx.cat("late-fold")
    if markov:
        ctx.cat("markov")
    if warm:
        ctx.cat("warmup")
    p1, np1 = run_generic(spec, t, random.Random(ctx.np_seed + 1))
    ncmp = 0
    for j, (a, b) in enumerate(zip(base, p1)):
        if j < len(steps) and steps[j] <= t:
            ncmp += 1
            if not ctx.check("C02:no-lookahead", a == b, call=j, cut=t, landing=steps[j],
                             fields=[f for f, x, y in zip(["obs", "reward", "done", "trades", "nlv", "holdings", "records", "delivered"], a, b) if x != y]):
                break
    ctx.check("C02:same-length", len(base) == len(p1), base=len(base), perturbed=len(p1))
    p2, np2 = run_generic(spec, t + timedelta(seconds=L), random.Random(ctx.np_seed + 2))
    for j, (a, b) in enumerate(zip(base, p2)):
        if j < len(steps) and steps[j] <= t:
            if not ctx.check("C02:no-lookahead", a == b, call=j, cut=t, landing=steps[j], latency_variant=True):
                break
    nxt = kc + 1
    if nxt < len(base) and nxt < len(p2):
        ctx.check("C02:next-trades-independent-of-future", base[nxt][3] == p2[nxt][3], cut=t, latency=L,
                  base=base[nxt][3], perturbed=p2[nxt][3])
    ctx.nontrivial = ncmp > 0 and np1 > 0
    ctx.sample = {"grid": grid, "latency": L, "delay": d, "fold_start": i0, "markov": markov, "warmup": warm, "cut": t,
                  "n_events": len(ev), "perturbed_events": np1, "compared_calls": ncmp}


XY_ACTS = [np.array([0.3, -0.2]), np.array([0., 0.5]), np.array([-0.4, 0.1])]


def run_xy(X, Y, rate, tf, prefit, tfit, window, sd, n):
    """One episode of the tabular environment; module-level so that it can also run in a fresh interpreter."""
    tfm = tf
    if prefit:
        # an ALREADY FITTED transformer instance (fitted on data up to tfit) is handed over
        from sklearn.preprocessing import StandardScaler
        tfm = StandardScaler().fit(X.loc[:tfit].dropna())
    env = TradingEnvXY(X.copy(), Y.copy(), transformer=tfm, transformer_end=tfit, window=window, rate=rate.copy(),
                       steps_delay=sd)
    out = []
    o = env.reset()
    out.append((env.now(), o.tobytes()))
    done = ep.reset_ended_episode(env)
    k = 0
    while not done:
        if k > n + 2:
            raise RuntimeError("step cap")
        o, rw, done, info = env.step(XY_ACTS[k % 3])
        k += 1
        out.append((env.now(), o.tobytes(), float(rw).hex(),
                    tuple((str(t.contract), float(t.quantity).hex(), float(t.bid_price).hex()) for t in info["_rebalancing"].trades),
                    float(env.broker.net_liquidation_value(False)).hex(), len(env.broker.track_record)))
    return out


def xy(ctx):
    r = ctx.rng
    rng = ctx.nrng
    n = r.randint(60, 140)
    dates = pd.date_range("2021-03-01", periods=n, freq=r.choice(["B", "D"]))
    X = pd.DataFrame(rng.normal(0, 1, [n, 3]), dates)
    Y = pd.DataFrame(100 * np.exp(np.cumsum(rng.normal(0, 0.01, [n, 2]), 0)), dates, columns=["a", "b"])
    for _ in range(r.randint(0, 5)):
        X.iloc[r.randint(0, len(X) - 1), r.randrange(3)] = np.nan
    for _ in range(r.randint(0, 3)):
        Y.iloc[r.randint(12, n - 3), r.randrange(2)] = np.nan   # not on the first step dates (markov reset: empty book, DESIGN 4.2-e)
    window = r.choice([1, 2, 5])
    tf = r.choice([None, "z-score", "yeo-johnson"])
    kfit = r.randint(20, n // 2)
    tfit = dates[kfit]
    kcut = r.randint(kfit, n - 3)
    sparse = r.random() < 0.4
    if sparse:
        # features sparser than prices (e.g. weekly vs daily): transformer_end is then usually NOT a
        # label of X, and the cut is placed at / just after it, before the next feature row
        keep = sorted(set(range(0, n, r.choice([2, 3, 5]))) - {kfit})
        X = X.iloc[keep]
        kcut = min(kfit + r.randint(0, 1), n - 3)
        ctx.cat("xy-sparse-features")
    if not sparse and r.random() < 0.3:
        # the feature rows are stamped later in the day than the price rows of the same date (features published
        # at 18:00, prices at midnight): the row of date D is dated AFTER the timestep D
        X.index = X.index + pd.Timedelta(hours=r.choice([18, 9, 23]))
        ctx.cat("xy-features-stamped-intraday")
    tcut = dates[kcut]
    # missing values straddling the cut: any backward fill / interpolation
    # would pull a perturbed value into an observation dated <= cut
    if not sparse and r.random() < 0.6:
        X.iloc[max(kcut - r.randint(0, 2), 1): kcut + 1, r.randrange(3)] = np.nan
        ctx.cat("xy-nan-straddles-cut")
    if not sparse and r.random() < 0.3:
        X = X.drop(X.index[kcut])
        ctx.cat("xy-row-missing-at-cut")
    rate = pd.Series(rng.uniform(-0.01, 0.03, n), dates, name="r")
    if r.random() < 0.4:
        # fixings on their own (sparser) cadence, mostly NOT on price dates: weekly / every 3rd / 10th calendar day
        dR = pd.date_range(dates[0] - pd.Timedelta(days=2), dates[-1], freq=r.choice(["W-SAT", "3D", "10D"]))
        rate = pd.Series(rng.uniform(-0.01, 0.03, len(dR)), dR, name="r")
        ctx.cat("xy-rate-off-price-dates")
    sd = r.choice([0, 1])
    acts = [np.array([0.3, -0.2]), np.array([0., 0.5]), np.array([-0.4, 0.1])]

    prefit = tf == "z-score" and r.random() < 0.5
    if prefit:
        ctx.cat("xy-prefitted-transformer")

    def run(X, Y, rate):
        return run_xy(X, Y, rate, tf, prefit, tfit, window, sd, n)

    if ctx.index % 100 == 9:
        # another tabular environment built earlier in the same process, with the same transformer shortcut but
        # fitted on other (and later) data, ...
        TradingEnvXY(X * 3 + 1, Y.copy(), transformer=tf, window=window)
    base = run(X, Y, rate)
    X2, Y2, rate2 = X.copy(), Y.copy(), rate.copy()
    after = X2.index > tcut
    X2.loc[after] = X2.loc[after] * rng.uniform(0.2, 3) + rng.normal(0, 1)
    Y2.loc[Y2.index > tcut] = Y2.loc[Y2.index > tcut] * rng.uniform(0.5, 2)
    rate2.loc[rate2.index > tcut] = rate2.loc[rate2.index > tcut] * 0.5 + 0.02
    # NaN pattern after the cut (not on the last two rows)
    idx_after = [j for j in range(kcut + 1, n - 2)]
    for _ in range(r.randint(0, 3)):
        if idx_after:
            xa = [j for j in range(len(X2) - 2) if X2.index[j] > tcut]
            if xa:
                X2.iloc[r.choice(xa), r.randrange(3)] = np.nan
            Y2.iloc[r.choice(idx_after), r.randrange(2)] = np.nan
    if ctx.index % 100 == 9:
        # ... and the perturbed twin run ALONE in a fresh interpreter: what the busy process serves up to the cut
        # must not depend on anything but the data up to the cut - not on what else was built in the process
        pert = alone.call("c02", "run_xy", X2, Y2, rate2, tf, prefit, tfit, window, sd, n)
        ctx.cat("xy-twin-in-fresh-interpreter")
    else:
        pert = run(X2, Y2, rate2)
    ncmp = 0
    for a, b in zip(base, pert):
        if a[0] <= tcut:
            ncmp += 1
            if not ctx.check("C02:xy-no-lookahead", a == b, at=a[0], cut=tcut, transformer=tf, window=window,
                             fields=[f for f, x, y in zip(["now", "obs", "reward", "trades", "nlv", "records"], a, b) if x != y]):
                break
    ctx.check("C02:xy-compared-something", ncmp > 0, cut=tcut)
    ctx.cat("xy", "xy-transformer:" + str(tf))
    ctx.nontrivial = ncmp > 0
    ctx.sample = {"xy": True, "rows": n, "window": window, "transformer": tf, "transformer_end": tfit, "cut": tcut,
                  "steps_delay": sd, "compared_calls": ncmp}


def case(ctx, i, tier):
    if i % 10 == 9:
        xy(ctx)
    elif i % 10 == 4:
        from vf import core
        rule = ctx.rng.choice(["EST5EDT,M3.2.0,M11.1.0", "CET-1CEST,M3.5.0,M10.5.0/3"])
        with core.local_timezone(rule):
            ctx.cat("process-in-a-dst-time-zone")
            generic(ctx, dst=rule)
    else:
        generic(ctx)
