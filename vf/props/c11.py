"""C11 - futures chains trade the live lead contract and roll before expiry (CAL resolution + EP rolling)."""
import math
from datetime import datetime, timedelta

import numpy as np

from tradingenv.env import TradingEnv
from tradingenv.contracts import ES, NK, VX, ZQ, ZT, ZF, ZN, ZB, ETF, FutureChain, AbstractContract, Future
from tradingenv.spaces import BoxPortfolio
from tradingenv.transmitter import Transmitter
from tradingenv.events import EventNBBO
from tradingenv.broker.fees import BrokerFees

from vf import ep

PROP = "C11"
LEVEL = "exploration"
ENGINE = "CAL+EP"
class UCL(Future):
    """A user-defined future: monthly, settled on the 22nd, last trade on the 20th at 14:30 (an INTRADAY last-trading
    instant - the built-in classes all stop at midnight)."""
    freq = "MS"
    multiplier = 1000.0
    margin_requirement = 0.1

    def _get_expiry_date(self, year, month):
        return datetime(year, month, 22)

    def _get_last_trading_date(self, expiry):
        return expiry - timedelta(days=2) + timedelta(hours=14, minutes=30)


CLASSES = [ES, NK, VX, ZQ, ZT, ZF, ZN, ZB, UCL]
DECADES = list(range(1970, 2100, 10))
N = {"quick": 40, "thorough": 2400}
TIME = {"quick": 300, "thorough": 480}
RULE = ("Resolution (systematic): for every built-in class x decade 1970..2099 x month offset {0,1,2}, a chain over the decade is "
        "resolved at EVERY last-trading instant exactly, 1us before and after it, and at random instants, through lead_contract(now), "
        "static_hashing() and symbol (reading the process clock); each must equal an independent linear scan (earliest last-trading "
        "date strictly later than now, shifted by the offset), never be past its last trading date, and the resolved index must never "
        "decrease as time advances. Rolling (random): environments trading one chain (ES, NK, VX, ZN; offset 0/1) over ~400 days with "
        "grid steps shorter than the roll window, random targets of either sign and zeros, spread, threshold, fees, optional second "
        "spot asset; every fifth episode is an intraday grid straddling a roll instant with a latency window containing it (decision before, execution after the last-trading instant). After every step every chain contract other than the lead at decision time is flat; nothing is held at or after "
        "its expiry; at a roll the old lead's trade is exactly -held and the new lead trades at its own logged quotes. Non-trivial = "
        "resolution case containing roll instants, or an episode with at least one roll while holding a position.")
ASSUMPTIONS = ["grid gaps shorter than the roll window (expiry - last trading date), as the property requires",
               "chain spans cover the process clock (K3 is reported under C10 only)"]
REQUIRED = ["C11:lead-resolution", "C11:never-past-last-trading", "C11:monotone", "C11:others-flat", "C11:not-held-at-expiry",
            "C11:roll-closes-old-lead", "C11:new-lead-at-own-quotes"]
REQUIRED_CATS = ["resolution:UCL", "resolution:refused-lookup-then-carry-on", "chain-marked-directly-on-the-broker", "resolution:copied-chain", "second-episode-on-same-chain", "rolled-while-holding-below-threshold", "another-chain-environment-later-in-time", "market-data-keyed-by-chain", "resolution:explicit-unsorted-list", "roll-inside-latency-window", "rolling:ES", "rolling:NK", "rolling:VX", "rolling:ZN", "rolled-while-holding"]
REQUIRED_HITS = ["Broker.transact", "Broker.rebalance"]
TECHNIQUE = "runtime monitoring: complete enumeration of roll instants against a linear-scan reference; holdings invariants after every step of rolling episodes"
LEVEL_TEXT = ("Roll instants of every built-in class are enumerated completely per decade (exact instant and +-1us) against an "
              "independent scan; rolling behaviour is explored on random year-long episodes with hooks recording every trade.")
LEVEL_NOTE = ("Trusted: linear-scan reference. Mutation audit: reverted VX frequency fix, bisect_right -> bisect_left, offset ignored, "
              "liquidations subjected to the threshold, static chain key, untargeted holdings kept are caught.")


def pydt(x):
    return x.to_pydatetime() if hasattr(x, "to_pydatetime") else x


def sys_count(tier):
    return len(CLASSES) * len(DECADES) * 3


def exhaustive(tier):
    return False


def sys_case(ctx, j, tier):
    rng = ctx.rng
    cls = CLASSES[j // (len(DECADES) * 3)]
    dec = DECADES[(j // 3) % len(DECADES)]
    month = j % 3
    AbstractContract.now = datetime.min
    ch = FutureChain(cls, "%d-01" % dec, "%d-12" % min(dec + 10, 2099), month=month)
    if j % 2 == 1:
        # the same chain given as an explicit list of contracts in arbitrary order
        listed = list(ch.contracts)
        rng.shuffle(listed)
        ch = FutureChain(contracts=listed, month=month)
        ctx.cat("resolution:explicit-unsorted-list")
    if j % 3 == 2:
        # the chain object went through a copy (a copied action space or environment, a pickle to a worker
        # process): it designates the same contracts as the chain it was copied from
        import copy
        import pickle
        how = rng.choice(["copy", "deepcopy", "pickle"])
        ch = {"copy": copy.copy, "deepcopy": copy.deepcopy, "pickle": lambda x: pickle.loads(pickle.dumps(x))}[how](ch)
        ctx.cat("resolution:chain-" + how)
        ctx.cat("resolution:copied-chain")
    ltds = [pydt(c.last_trading_date) for c in ch.contracts]
    usable = ltds[: len(ltds) - 1 - month - 1]
    inst = []
    for l in usable:
        inst += [l - timedelta(microseconds=1), l, l + timedelta(microseconds=1)]
    lo, hi = ltds[0] - timedelta(days=30), usable[-1]
    for _ in range(100):
        inst.append(lo + (hi - lo) * rng.random())
    inst.sort()
    prev = -1
    for now in inst:
        AbstractContract.now = now
        if rng.random() < 0.05:
            # a look-up that is refused (asking for a contract beyond the last listed one; the caller catches the
            # IndexError, e.g. while enumerating month=0,1,2,... until it fails) leaves the chain as it was
            try:
                ch.lead_contract(now, month=len(ch.contracts) + 1)
            except IndexError:
                ctx.cat("resolution:refused-lookup-then-carry-on")
        if rng.random() < 0.2:
            # (a look-up of a LATER contract of the curve at the same instant, before the plain one)
            try:
                ch.lead_contract(now, month=rng.choice([1, 2]))
                ch.lead_contract(month=1)
            except IndexError:
                pass
        c1 = ch.static_hashing()
        c2 = ch.lead_contract(now)
        sym = ch.symbol
        cand = sorted([x for x in ch.contracts if pydt(x.last_trading_date) > now], key=lambda x: pydt(x.last_trading_date))
        want = cand[month]
        # (asking with the optional extra shift spelled out as 'none' - keyword or positional - is the same question)
        c3 = ch.lead_contract(now, month=0)
        c4 = ch.lead_contract(now, 0)
        c5 = ch.lead_contract(month=0)
        ctx.check("C11:lead-resolution", c1 is want and c2 is want and sym == want.symbol and c3 is want and c4 is want and c5 is want,
                  cls=cls.__name__, offset=month, now=now, got=[c1.symbol, c2.symbol, sym, c3.symbol, c4.symbol, c5.symbol], want=want.symbol)
        ctx.check("C11:never-past-last-trading", pydt(c1.last_trading_date) > now, now=now, lead=c1.symbol, ltd=c1.last_trading_date)
        idx = ch.contracts.index(c1)
        ctx.check("C11:monotone", idx >= prev, now=now, idx=idx, previous=prev)
        prev = idx
    AbstractContract.now = datetime.min
    ctx.cat("resolution:" + cls.__name__)
    ctx.nontrivial = len(usable) > 0
    ctx.sample = {"class": cls.__name__, "decade": dec, "offset": month, "roll_instants": len(usable), "instants": len(inst)}


STEP_DAYS = {ES: [1, 5, 7], NK: [1, 5, 7, 10], VX: [1], ZN: [1, 5, 10, 20]}


def case(ctx, i, tier):
    rng = ctx.rng
    cls = [ES, NK, VX, ZN][i % 4]
    month = rng.choice([0, 0, 1])
    AbstractContract.now = datetime.min
    sy = rng.choice([2005, 2012, 2016])
    ch = FutureChain(cls, "%d-01" % sy, "%d-12" % (sy + 3), month=month)
    etf = ETF("A") if rng.random() < 0.5 else None
    start = datetime(sy, 2, 1) + timedelta(days=rng.randint(0, 100))
    minwin = min((pydt(c.expiry) - pydt(c.last_trading_date)).days for c in ch.contracts)
    stepd = rng.choice([d for d in (1, 3, 5, 7, 10) if d < minwin] or [1])
    ndays = rng.choice([200, 400])
    grid = [start + timedelta(days=k) for k in range(0, ndays, stepd)]
    latency = 0
    intraday = i % 5 == 4
    if intraday:
        # intraday grid straddling a roll instant, with a latency window that contains
        # it: the decision is taken before the last-trading instant, executed after it
        roll = pydt(ch.contracts[rng.randint(1, 4)].last_trading_date)
        gap = rng.choice([60, 300])
        latency = rng.choice([20, 30, 45])
        off = rng.choice([5, 10, 15])       # last timestep before the roll is `off` s before it
        k0 = rng.randint(2, 5)
        grid = [roll - timedelta(seconds=off) + timedelta(seconds=gap * (k - k0)) for k in range(k0 + rng.randint(3, 6))]
        stepd = 0
        ndays = 0
        ctx.cat("roll-inside-latency-window")
    spread = rng.choice([0, 2e-4, 2e-3])
    thr = rng.choice([0, 0.02, 0.05])
    evs = []
    qtimes = list(grid)
    if intraday:
        qtimes = sorted(set(grid + [g + timedelta(seconds=latency - 5) for g in grid[:-1]] +
                            [g + timedelta(seconds=latency + 5) for g in grid[:-1]]))
    chain_keyed = (not intraday) and month == 0 and rng.random() < 0.25
    if chain_keyed:
        # a continuous front-month series: every quote is addressed to the CHAIN itself and lands in the
        # book of whatever contract leads at that time
        ctx.cat("market-data-keyed-by-chain")
        p = rng.uniform(10, 3000)
        for t in qtimes:
            p *= math.exp(rng.gauss(0, 0.006))
            evs.append(EventNBBO(t, ch, p * (1 - spread / 2), p * (1 + spread / 2)))
    for c in ([] if chain_keyed else ch.contracts):
        p = rng.uniform(10, 3000)
        for t in qtimes:
            if pydt(c.expiry) - timedelta(days=500) < t < pydt(c.expiry):
                p *= math.exp(rng.gauss(0, 0.006 if not intraday else 0.0005))
                evs.append(EventNBBO(t, c, p * (1 - spread / 2), p * (1 + spread / 2)))
    if etf is not None:
        p = 50.0
        for t in qtimes:
            p *= math.exp(rng.gauss(0, 0.01))
            evs.append(EventNBBO(t, etf, p, p * 1.0005))
    rng.shuffle(evs)
    fees = BrokerFees(proportional=rng.choice([0, 1e-4]), fixed=rng.choice([0, 0.5]))
    tr = Transmitter(grid)
    tr.add_events(evs)
    cs = [ch] + ([etf] if etf is not None else [])
    sink = ep.Sink()
    env = TradingEnv(action_space=BoxPortfolio(cs, -2, 2, margin=thr), transmitter=tr, state=ep.Rec(sink), broker_fees=fees,
                     initial_cash=1e7, latency=latency)
    sink.env = env
    other = None
    if not intraday and rng.random() < 0.3:
        # ANOTHER environment trading a chain of the same family lives in the process, LATER in simulated time
        # (the contract clock is process-wide), and is stepped in between the steps of the one under test
        ch2 = FutureChain(cls, "%d-01" % sy, "%d-12" % (sy + 3), month=month)
        shift = timedelta(days=rng.choice([95, 190, 400]))
        grid2 = [g + shift for g in grid if g + shift < datetime(sy + 3, 6, 1)]
        if len(grid2) >= 3:
            evs2 = []
            for c in ch2.contracts:
                for t in grid2:
                    if pydt(c.expiry) - timedelta(days=500) < t < pydt(c.expiry):
                        evs2.append(EventNBBO(t, c, 100.0, 100.0))
            tr2 = Transmitter(grid2)
            tr2.add_events(evs2)
            other = TradingEnv(action_space=BoxPortfolio([ch2], -2, 2), transmitter=tr2, initial_cash=1e7)
            other.reset()
            other_done = False
            ctx.cat("another-chain-environment-later-in-time")
    quotes = {}
    cursor = [0]
    rolls_holding = 0
    prev_lead = None
    n_episodes = 2 if (not intraday and rng.random() < 0.4) else 1
    if n_episodes == 2:
        # a second episode on the same environment: the clock goes BACK to the start of the data, the chain
        # object (and whatever it remembers) is the same
        ctx.cat("second-episode-on-same-chain")
    for episode_nr in range(n_episodes):
        quotes.clear()
        cursor[0] = len(sink.log)
        prev_lead = None
        with ep.EpMonitor(sink) as mon:
            env.reset()
            direct_marks = (not intraday) and rng.random() < 0.25
            if direct_marks:
                # the user marks 'the contract they trade' - the chain - directly on the broker, before the first trade
                # and now and then between steps (a public Broker method, e.g. after pushing a quote by hand)
                env.broker.marking_to_market(ch)
                ctx.cat("chain-marked-directly-on-the-broker")
            done = ep.done_at_reset(env, sink)
            k = 0
            while not done:
                if k > len(grid) + 2:
                    raise RuntimeError("step cap")
                if direct_marks and rng.random() < 0.3:
                    env.broker.marking_to_market(ch)
                w = rng.choice([0.0, rng.uniform(-1.5, 1.5), rng.uniform(-1.5, 1.5)]) if not intraday else rng.choice([-1, 1]) * rng.uniform(0.3, 1.5)
                if thr > 0 and not intraday and rng.random() < 0.35:
                    # a position SMALLER than the trading threshold is carried (possibly into a roll: the old lead must be
                    # closed however small it is)
                    w = rng.choice([-1, 1]) * thr * rng.uniform(1.05, 1.6) if env.broker.holdings_quantity.get(prev_lead, 0.0) == 0 else w * 0 + rng.choice([-1, 1]) * thr * rng.uniform(0.2, 0.8)
                a = np.array([w] + ([rng.uniform(-0.3, 0.5)] if etf is not None else []))
                if other is not None and not other_done and rng.random() < 0.7:
                    other_done = other.step(np.array([rng.uniform(-1, 1)]))[2]
                h_before = env.broker.holdings_quantity
                o, r, done, info = env.step(a)
                k += 1
                rb = info["_rebalancing"]
                # quotes as delivered before this decision
                dec_quotes = None
                while cursor[0] < len(sink.log):
                    x = sink.log[cursor[0]]
                    cursor[0] += 1
                    if x[0] == "M" and isinstance(x[5], EventNBBO):
                        key = x[5].contract
                        if key is ch:
                            key = sorted([c for c in ch.contracts if pydt(c.last_trading_date) > x[2]],
                                         key=lambda c: pydt(c.last_trading_date))[month]
                        quotes[key] = (x[5].bid_price, x[5].ask_price)
                    elif x[0] == "X":
                        ctx.check("C11:not-held-at-expiry", env.broker.holdings_quantity.get(x[5].contract, 0.0) == 0.0 and
                                  h_before.get(x[5].contract, 0.0) * 0 == 0 and _held_at(h_before, rb, x[5].contract) == 0.0,
                                  contract=x[5].contract.symbol, at=x[2])
                        quotes.pop(x[5].contract, None)
                    elif x[0] == "REB":
                        dec_quotes = dict(quotes)
                cand = sorted([c for c in ch.contracts if pydt(c.last_trading_date) > rb.time], key=lambda c: pydt(c.last_trading_date))
                lead = cand[month]
                h = env.broker.holdings_quantity
                now = env.now()
                for c in ch.contracts:
                    q = h.get(c, 0.0)
                    if c is not lead:
                        ctx.check("C11:others-flat", q == 0.0, contract=c.symbol, qty=q, lead=lead.symbol, decision=rb.time)
                    if q != 0:
                        ctx.check("C11:not-held-at-expiry", pydt(c.expiry) > now, contract=c.symbol, qty=q, now=now, expiry=c.expiry)
                if prev_lead is not None and lead is not prev_lead:
                    held = h_before.get(prev_lead, 0.0)
                    ctx.cat("roll")
                    if held != 0:
                        rolls_holding += 1
                        ctx.cat("rolled-while-holding")
                        wpre = rb.context_pre.weights.get(prev_lead, 0.0)
                        if thr > 0 and abs(wpre) < thr:
                            ctx.cat("rolled-while-holding-below-threshold")
                        t_old = [t for t in rb.trades if t.contract is prev_lead or t.contract == prev_lead]
                        ctx.check("C11:roll-closes-old-lead", len(t_old) == 1 and t_old[0].quantity == -held,
                                  old=prev_lead.symbol, held=held, trades=[(t.contract.symbol, t.quantity) for t in rb.trades])
                    t_new = [t for t in rb.trades if t.contract == lead]
                    if t_new and dec_quotes is not None:
                        ctx.check("C11:new-lead-at-own-quotes", (t_new[0].bid_price, t_new[0].ask_price) == dec_quotes.get(lead),
                                  lead=lead.symbol, trade=[t_new[0].bid_price, t_new[0].ask_price], quotes=dec_quotes.get(lead))
                    if w != 0 and abs(w) >= thr and dec_quotes is not None:
                        ctx.check("C11:target-re-established-in-new-lead", len(t_new) == 1 and h.get(lead, 0.0) != 0.0,
                                  lead=lead.symbol, w=w, trades=[(t.contract.symbol, t.quantity) for t in rb.trades])
                prev_lead = lead
    AbstractContract.now = datetime.min
    ctx.cat("rolling:" + cls.__name__, "offset:%d" % month, "step-days:%d" % stepd)
    ctx.nontrivial = rolls_holding > 0
    ctx.sample = {"class": cls.__name__, "offset": month, "start": start, "days": ndays, "step_days": stepd, "spread": spread,
                  "threshold": thr, "steps": k, "rolls_while_holding": rolls_holding, "second_asset": etf is not None}


def _held_at(h_before, rb, contract):
    """Position in `contract` after this step's rebalance (holdings before + its trades)."""
    q = h_before.get(contract, 0.0)
    for t in rb.trades:
        if t.contract == contract:
            q += t.quantity
    return q if abs(q) >= 1e-7 else 0.0
