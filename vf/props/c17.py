"""C17 - only in-space actions are executed, as the allocation they denote (engine EP, fault injection)."""
from datetime import datetime, timedelta

import numpy as np

from tradingenv.env import TradingEnv
from tradingenv.contracts import ETF, ES, Cash
from tradingenv.spaces import BoxPortfolio, DiscretePortfolio
from tradingenv.transmitter import Transmitter
from tradingenv.events import EventNBBO
from tradingenv.broker.broker import EndOfEpisodeError

from vf import ep, gen

PROP = "C17"
LEVEL = "fault_enumeration"
ENGINE = "EP"
N = {"quick": 2500, "thorough": 160000}
TIME = {"quick": 300, "thorough": 420}
RULE = ("Episodes over continuous (Box) and discrete portfolio spaces, contract lists with or without the cash contract (shuffled), "
        "weights or number-of-contract mode, bounds {(0,1),(-1,1),(-0.5,2)}, delays 0-2. One malformed action of every kind "
        "{above upper bound, below lower bound, one element out of bounds, length+1, length-1, NaN, inf, 2-D, None, string; index -1, "
        "n, 1.5, np.float64, None, string, array, NaN} is injected at a random step (kinds cycled by case index so all are enumerated). "
        "Oracle: the malformed action raises at a step <= its due step, with 0 Broker.transact calls, no new record entry and holdings "
        "unchanged across the raising call, and is never found executed; every in-space action executed at its due step yields "
        "Rebalancing.allocation == {contract: value} without cash and zero entries, targets reached (C03 clause) and the residual "
        "in cash. Non-trivial = every case (one injected fault each).")
ASSUMPTIONS = ["ambiguous encodings (bool, integral floats for Discrete) are not generated",
               "reference membership: Box = float64-convertible array of the exact shape with low <= x <= high (NaN out); "
               "Discrete = Python int or numpy integer in [0, n)"]
REQUIRED = ["C17:continue-after-rejection", "C17:malformed-rejected-in-time", "C17:no-effect-on-reject", "C17:malformed-never-executed", "C17:allocation-denoted",
            "C17:target-reached", "C17:residual-in-cash"]
REQUIRED_CATS = ["whole-lots", "action-container-reused:list", "action-container-reused:series", "action-container-reused:ndarray", "subclass-overrides-contains", "bad:B:subclass:over-budget", "box-open-on-one-side", "bad:B:open-high:below", "bad:B:open:nan", "bounds-exclude-zero", "fit-transformers", "per-contract-bounds", "second-episode", "box", "discrete", "with-cash", "nr-contracts", "delay:1", "delay:2"]
REQUIRED_HITS = ["Broker.transact", "Broker.rebalance"]
TECHNIQUE = "runtime monitoring with fault injection: malformed actions injected into episodes; Broker.transact hook proves nothing executed"
LEVEL_TEXT = ("Fault enumeration over the kinds of malformed action x space type x delay, each injected at a random step of a real "
              "episode; the Broker.transact hook and the track record show that a rejected action had no effect.")
LEVEL_NOTE = ("Trusted: the reference membership rule. Mutation audit: upper bound unchecked, NaN accepted, cash entry traded, check "
              "moved after the rebalance, reverted null-action fix are caught.")


class BudgetBox(BoxPortfolio):
    """A user-defined space: a box with one more declared constraint (no leverage: the entries sum to at most
    `budget`), stated the gymnasium way - by overriding the public contains()."""
    budget = 1.0

    def contains(self, x):
        return bool(super().contains(x)) and float(np.sum(x)) <= self.budget

    def sample(self, *args, **kwargs):
        x = super().sample(*args, **kwargs)
        tot = float(np.sum(x))
        return x * (0.99 * self.budget / tot) if tot > self.budget else x


def case(ctx, i, tier):
    rng = ctx.rng
    cs = [ETF("A"), ETF("B"), ES(2021, 3), gen.SpotMult("L10", 10.0)]
    rng.shuffle(cs)
    cs = cs[: rng.randint(1, 3)]
    withcash = rng.random() < 0.5
    contracts = ([Cash()] if withcash else []) + cs
    rng.shuffle(contracts)
    n = rng.randint(4, 9)
    grid = [datetime(2020, 6, 1) + timedelta(days=k) for k in range(n)]
    evs = []
    px = {}
    for t in grid:
        for c in cs:
            px[c] = rng.uniform(50, 55)
            sp = rng.choice([0, 1e-3])
            evs.append(EventNBBO(t, c, px[c] * (1 - sp / 2), px[c] * (1 + sp / 2)))
    d = rng.choice([0, 1, 2])
    asw = rng.random() < 0.8
    disc = rng.random() < 0.4
    m = len(contracts)
    if disc:
        allocs = [[0] * m] + [[rng.uniform(-0.3, 0.4) for _ in contracts] for _ in range(rng.randint(1, 4))]
        if not asw:
            allocs = [[round(x * 10) for x in a] for a in allocs]
        sp_ = DiscretePortfolio(contracts, allocs, as_weights=asw)
        # (an index may arrive as a Python int or as a numpy integer - what np.argmax / a policy network returns)
        itype = rng.choice([int, int, np.int64, np.int32])
        ctx.cat("index-type:" + itype.__name__)
        valid = lambda: itype(rng.randrange(len(allocs)))
        denote = lambda a: allocs[int(a)]
        bads = [("index-1", -1), ("index-n", len(allocs)), ("index-1.5", 1.5), ("np.float64", np.float64(1.0)), ("none", None),
                ("string", "x"), ("array", np.array([0, 1])), ("nan", float("nan")), ("index-big", 10 ** 6)]
    else:
        lo, hi = rng.choice([(0, 1), (-1, 1), (-0.5, 2)])
        scale = 1 if asw else 10
        per_contract = rng.random() < 0.4 and m >= 2
        if per_contract:
            # bounds that differ between contracts (arrays)
            los = np.array([rng.choice([0.0, -1.0, -0.5]) for _ in contracts]) * scale
            his = np.array([rng.choice([0.5, 1.0, 2.0]) for _ in contracts]) * scale
            if d == 0 and rng.random() < 0.5:
                # one contract must always be held: zero is OUTSIDE its bounds
                los[rng.randrange(m)] = 0.1 * scale
                ctx.cat("bounds-exclude-zero")
            sp_ = BoxPortfolio(contracts, los, his, as_weights=asw)
            ctx.cat("per-contract-bounds")
        else:
            los = np.full(m, lo * scale, dtype=float)
            his = np.full(m, hi * scale, dtype=float)
            sp_ = BoxPortfolio(contracts, lo * scale, hi * scale, as_weights=asw)
        open_side = None
        if rng.random() < 0.25:
            # a box that is open on one side (long-only number of contracts, 'no upper limit'): some or all of the
            # bounds on that side are infinite - the finite side and NaN are still enforced
            open_side = rng.choice(["high", "low"])
            which = [rng.random() < 0.6 for _ in contracts]
            if not any(which) or rng.random() < 0.4:
                which = [True] * m
            if open_side == "high":
                his = np.where(which, np.inf, his)
            else:
                los = np.where(which, -np.inf, los)
            if rng.random() < 0.5 and all(which):
                sp_ = BoxPortfolio(contracts, (float(los[0]) if np.all(los == los[0]) else los),
                                   (float(his[0]) if np.all(his == his[0]) else his), as_weights=asw)
            else:
                sp_ = BoxPortfolio(contracts, los, his, as_weights=asw)
            ctx.cat("box-open-on-one-side")
        valid = lambda: np.array([rng.uniform(max(l, -0.3 * scale), max(min(h, 0.4 * scale), max(l, -0.3 * scale))) for l, h in zip(los, his)])
        denote = lambda a: list(a)
        j_hi = rng.randrange(m)
        one_hi = np.array([min(max(0.1 * scale, l), h) for l, h in zip(los, his)])
        # just above ITS OWN upper bound (inside the loosest bound of the other contracts when bounds differ)
        one_hi[j_hi] = his[j_hi] + (1e-9 + abs(his[j_hi]) * 1e-12 if not per_contract else 0.25 * scale)
        j_lo = rng.randrange(m)
        one_lo = np.array([min(max(0.1 * scale, l), h) for l, h in zip(los, his)])
        one_lo[j_lo] = los[j_lo] - (1e-9 if not per_contract else 0.25 * scale)
        lo, hi = float(los.min()) / scale, float(his.max()) / scale
        bads = [("above", np.full(m, hi * scale + 1.0)), ("below", np.full(m, lo * scale - 1.0)), ("one-above", one_hi),
                ("one-below", one_lo), ("len+1", np.full(m + 1, 0.1)), ("len-1", np.full(max(m - 1, 0), 0.1)),
                ("nan", np.array([np.nan] * m)), ("one-nan", np.where(np.arange(m) == rng.randrange(m), np.nan, 0.1)),
                ("2d", np.array([[0.1] * m])), ("none", None), ("string", "x"), ("inf", np.array([np.inf] * m)),
                ("scalar", 0.1) if m > 1 else ("-inf", np.array([-np.inf] * m))]
        if open_side is None and not per_contract and asw and lo == 0 and m >= 2 and rng.random() < 0.5:
            # a SUBCLASS of the box with an extra declared constraint (sum of weights <= 1): an action inside the
            # box but over the budget is outside the declared space
            sp_ = BudgetBox(contracts, lo * scale, hi * scale, as_weights=asw)
            valid = lambda: np.array([rng.uniform(0.0, 0.9 / m) for _ in contracts])
            over = np.full(m, min(hi, 0.8) * scale)
            bads = [("subclass:over-budget", over), ("subclass:over-budget-one-zero", np.where(np.arange(m) == 0, 0.0, min(hi, 1.0) * scale)
                     if m >= 3 else over), ("subclass:nan", np.array([np.nan] * m)), ("subclass:above-box", np.full(m, hi * scale + 1.0))]
            ctx.cat("subclass-overrides-contains")
        elif open_side is not None:
            fin_lo = np.where(np.isfinite(los), los, -1.0 * scale)
            fin_hi = np.where(np.isfinite(his), his, 1.0 * scale)
            inside = np.array([min(max(0.1 * scale, l), h) for l, h in zip(fin_lo, fin_hi)])
            if open_side == "high":
                jb = rng.randrange(m)
                one = inside.copy()
                one[jb] = los[jb] - 0.25 * scale
                bads = [("open-high:below", fin_lo - 1.0 * scale), ("open-high:one-below", one)]
            else:
                jb = rng.randrange(m)
                one = inside.copy()
                one[jb] = his[jb] + 0.25 * scale
                bads = [("open-low:above", fin_hi + 1.0 * scale), ("open-low:one-above", one)]
            bads += [("open:nan", np.array([np.nan] * m)), ("open:one-nan", np.where(np.arange(m) == rng.randrange(m), np.nan, inside)),
                     ("open:len+1", np.full(m + 1, 0.1))]
        elif np.any(los > 0) or np.any(his < 0):
            # the all-zero vector is then out of bounds too (it merely looks like the null placeholder)
            bads = [("all-zero", np.zeros(m)), ("all-zero-list", [0.0] * m)] + bads[:2]
    whole = False
    if not disc and not asw and type(sp_) is BoxPortfolio and not per_contract and open_side is None and m >= 2 and rng.random() < 0.6:
        # positions in WHOLE lots (fractional=False): every contract moves by its imbalance truncated toward zero - a
        # contract less than one lot off target stays put, the others are traded whatever their place in the list
        sp_ = BoxPortfolio(contracts, float(los[0]), float(his[0]), as_weights=False, fractional=False)
        whole = True
        ctx.cat("whole-lots")
    tr = Transmitter(grid)
    tr.add_events(evs)
    sink = ep.Sink()
    fitted = rng.random() < 0.2
    if fitted:
        # an environment whose feature transformers are fitted at construction (a warm-up backtest
        # runs, after which observations are no longer verified): actions still are
        from tradingenv.library import FeaturePrices
        env = TradingEnv(action_space=sp_, transmitter=tr, steps_delay=d, initial_cash=1e6,
                         state=[FeaturePrices(cs)], fit_transformers=True)
        ctx.cat("fit-transformers")
    else:
        env = TradingEnv(action_space=sp_, transmitter=tr, steps_delay=d, initial_cash=1e6, state=ep.Rec(sink))
    sink.env = env
    inj = rng.randint(0, n - 2)
    bad_name, bad = bads[(ctx.index // 3) % len(bads)]
    ctx.cat("disc" + "rete" if disc else "box", "bad:" + ("D:" if disc else "B:") + bad_name, "delay:{}".format(d),
            "with-cash" if withcash else "no-cash", "weights" if asw else "nr-contracts")
    ctx.nontrivial = True
    ctx.sample = {"space": "discrete" if disc else "box", "contracts": [c.symbol for c in contracts], "as_weights": asw,
                  "delay": d, "injected_at": inj, "malformed": bad_name, "value": repr(bad)[:80], "steps": n - 1}
    acts = []
    rejected = False
    with ep.EpMonitor(sink) as mon:
        env.reset()
        done = False
        k = 0
        while not done:
            if k > n + 2:
                raise RuntimeError("step cap")
            a = bad if k == inj else valid()
            acts.append(a)
            nt0 = mon.n_transact
            ntr0 = len(env.broker.track_record)
            h0 = env.broker.holdings_quantity
            nlv0 = None
            try:
                o, r, done, info = env.step(a)
            except EndOfEpisodeError:
                raise
            except Exception as ex:
                due = inj + d
                ctx.check("C17:malformed-rejected-in-time", inj <= k <= due, raised_at=k, injected=inj, due=due, error=repr(ex)[:120])
                ctx.check("C17:no-effect-on-reject", mon.n_transact == nt0 and len(env.broker.track_record) == ntr0
                          and env.broker.holdings_quantity == h0, transacts=mon.n_transact - nt0)
                rejected = True
                break
            src = acts[k - d] if k - d >= 0 else None
            if not ctx.check("C17:malformed-never-executed", k - d != inj, step=k, malformed=bad_name):
                return
            rb = info["_rebalancing"]
            al = dict(rb.allocation)
            want = {} if src is None else {c: w for c, w in zip(contracts, denote(src)) if not isinstance(c, Cash) and w != 0}
            ctx.check("C17:allocation-denoted", al == want, got={c.symbol: v for c, v in al.items()},
                      want={c.symbol: v for c, v in want.items()})
            # targets reached, residual in cash
            pre = rb.context_pre.nlv
            hq = env.broker.holdings_quantity
            invested = 0.0
            for c in cs:
                w = want.get(c, 0.0)
                t_ = [x for x in rb.trades if x.contract == c]
                book_bid, book_ask = (t_[0].bid_price, t_[0].ask_price) if t_ else (None, None)
                q = hq.get(c, 0.0)
                if asw:
                    if t_:
                        pxs = book_ask if w > 0 else book_bid
                        ctx.check("C17:target-reached", abs(q * c.multiplier * pxs - w * pre) <= 1e-9 * max(1.0, abs(w * pre)) + 1.01e-7 * c.multiplier * pxs,
                                  contract=c.symbol, got=q * c.multiplier * pxs, want=w * pre)
                elif whole:
                    wq = h0.get(c, 0.0) + int(w - h0.get(c, 0.0))
                    ctx.check("C17:target-reached", q == wq, contract=c.symbol, got=q, want=wq, target=w, held=h0.get(c, 0.0),
                              whole_lots=True, order=[x.symbol for x in contracts])
                else:
                    ctx.check("C17:target-reached", abs(q - w) <= 1e-9 * max(1.0, abs(w)), contract=c.symbol, got=q, want=w)
            post = rb.context_post
            cash = post.nr_contracts.get(Cash(), 0.0)
            spot_val = sum(post.values.get(c, 0.0) for c in cs if c.cash_requirement)
            marg = sum(post.margins.values())
            ctx.check("C17:residual-in-cash", abs(cash + spot_val + marg - post.nlv) <= 1e-9 * max(1.0, abs(cash) + abs(spot_val) + marg),
                      cash=cash, spot=spot_val, margins=marg, nlv=post.nlv)
            k += 1
    # a second episode on the same environment: only what is submitted in it may be executed
    # (the malformed / pending actions of the first episode are gone)
    with ep.EpMonitor(sink) as mon2:
        del sink.log[:]
        env.reset()
        acts2 = []
        done = False
        k2 = 0
        while not done and k2 < 3:
            a = valid()
            acts2.append(a)
            o, r, done, info = env.step(a)
            src = acts2[k2 - d] if k2 - d >= 0 else None
            al = dict(info["_rebalancing"].allocation)
            want = {} if src is None else {c: w for c, w in zip(contracts, denote(src)) if not isinstance(c, Cash) and w != 0}
            ctx.check("C17:allocation-denoted", al == want, episode=2, step=k2, got={c.symbol: v for c, v in al.items()},
                      want={c.symbol: v for c, v in want.items()})
            k2 += 1
        ctx.cat("second-episode")
    # an episode in which the caller keeps ONE mutable container for its actions (a list, a pandas Series, an array)
    # and overwrites it in place before every call: what is executed d steps later is what the container held when
    # it was submitted
    if not disc and d >= 1 and type(sp_) is BoxPortfolio:
        import pandas as pd
        kind = rng.choice(["list", "series", "ndarray"])
        with ep.EpMonitor(sink) as mon4:
            del sink.log[:]
            env.reset()
            first = valid()
            buf = list(first) if kind == "list" else pd.Series(first) if kind == "series" else np.array(first)
            hist = []
            done = False
            k4 = 0
            while not done and k4 < 4:
                v = valid()
                for j in range(m):
                    if kind == "series":
                        buf.iloc[j] = v[j]
                    else:
                        buf[j] = v[j]
                hist.append([float(x) for x in v])
                o, r, done, info = env.step(buf)
                src = hist[k4 - d] if k4 - d >= 0 else None
                al = dict(info["_rebalancing"].allocation)
                want = {} if src is None else {c: w for c, w in zip(contracts, src) if not isinstance(c, Cash) and w != 0}
                ctx.check("C17:allocation-denoted", al == want, episode="reused-" + kind, step=k4, delay=d,
                          got={c.symbol: v_ for c, v_ in al.items()}, want={c.symbol: v_ for c, v_ in want.items()})
                k4 += 1
        ctx.cat("action-container-reused:" + kind)
    # a third episode in which the caller CATCHES the rejection and carries on: a reference FIFO of
    # d pending actions says what is due at every call; the malformed action, when due, is rejected
    # without effect and nothing else is lost, duplicated or reordered
    if not fitted:
        import collections
        with ep.EpMonitor(sink) as mon3:
            del sink.log[:]
            env.reset()
            model = collections.deque([None] * d)          # None = null action
            done = False
            k3 = 0
            inj3 = rng.randint(0, 2)
            BAD = object()
            while not done and k3 < n + 2:
                a = bad if k3 == inj3 else valid()
                model.appendleft(BAD if k3 == inj3 else a)
                due = model.pop()
                nt0, ntr0, h0 = mon3.n_transact, len(env.broker.track_record), env.broker.holdings_quantity
                try:
                    o, r, done, info = env.step(a)
                    raised = False
                except EndOfEpisodeError:
                    break
                except Exception:
                    raised = True
                if due is BAD:
                    ctx.check("C17:continue-after-rejection", raised and mon3.n_transact == nt0 and
                              len(env.broker.track_record) == ntr0 and env.broker.holdings_quantity == h0,
                              step=k3, raised=raised, malformed=bad_name, delay=d)
                elif raised:
                    ctx.check("C17:continue-after-rejection", False, step=k3, note="an in-space action was rejected",
                              malformed=bad_name, delay=d, injected=inj3)
                    break
                else:
                    al = dict(info["_rebalancing"].allocation)
                    want = {} if due is None else {c: w for c, w in zip(contracts, denote(due)) if not isinstance(c, Cash) and w != 0}
                    ctx.check("C17:continue-after-rejection", al == want, step=k3, delay=d, injected=inj3,
                              got={c.symbol: v for c, v in al.items()}, want={c.symbol: v for c, v in want.items()})
                k3 += 1
            ctx.cat("continued-after-rejection")
    if not rejected:
        ctx.check("C17:malformed-rejected-in-time", not (inj + d < k), never_rejected=True, injected=inj, delay=d, steps=k,
                  malformed=bad_name)
        ctx.cat("episode-ended-before-due")
