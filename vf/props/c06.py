"""C06 - interest on cash: compounding, sign, markup, no double accrual (engine BL)."""
import math
from datetime import datetime, timedelta
from decimal import Decimal, getcontext

import numpy as np

from tradingenv.contracts import Cash, ETF, ES, Rate
from tradingenv.broker.broker import Broker
from tradingenv.broker.trade import Trade
from tradingenv.broker.fees import BrokerFees
from tradingenv.broker.rebalancing import Rebalancing
from tradingenv.events import EventNBBO

from vf import gen

getcontext().prec = 60
YEAR = 365 * 24 * 3600

PROP = "C06"
LEVEL = "exploration"
ENGINE = "BL"
N = {"quick": 2500, "thorough": 300000}
TIME = {"quick": 300, "thorough": 420}
RULE = ("Random (cash balance of either sign 1e-2..1e9, reference rate in [-0.05, 0.25), markup >= 0 with 1+rate-markup>0, "
        "interval 1 s .. 40 y, k in {1,2,5,50,500} random cuts). The final balance is compared with a 60-digit decimal closed "
        "form B*(1+r-/+m)^(s/31536000) (floored at B for positive balances); twin brokers with/without accrue=False queries must "
        "end bit-identical; re-accrual at the same instant returns exactly 0; an earlier time raises and changes nothing; with a "
        "margined position open the amount equals the formula on cash only; negative balances are produced by a leveraged spot "
        "purchase; empty-target rebalances accrue the same amount and report it. Non-trivial = k >= 2 cuts and (negative balance "
        "or markup > 0 or query/rebalance interleaved).")
ASSUMPTIONS = ["rate constant over the interval (the property's premise)", "relative tolerance 1e-10 against the closed form"]
REQUIRED = ["C06:episode-balance-independent-of-requoting", "C06:split-invariance", "C06:same-instant-zero", "C06:earlier-time-rejected", "C06:query-changes-nothing",
            "C06:twin-query-bit-identical", "C06:positive-never-charged", "C06:negative-charged-at-r+m",
            "C06:margin-earns-nothing", "C06:rebalance-reports-interest", "C06:failed-rebalance-accrues-once"]
REQUIRED_CATS = ["episode-rate-quoted-sparsely", "fee-schedule-installed-after-construction", "process-in-a-dst-time-zone", "base-currency-not-the-default", "refused-request-then-accrual", "query-beyond-next-accrual", "rate-quote-type:f32", "rate-quote-type:int", "rate-quoted-two-sided", "sub-second-spacing", "tz-aware-changing-offsets"]
REQUIRED_HITS = ["Broker.accrued_interest"]
TECHNIQUE = "runtime monitoring: closed-form reference model (60-digit decimal) and twin runs over generated accrual schedules"
LEVEL_TEXT = ("Exploration. The real Broker.accrued_interest / Broker.rebalance are driven through thousands of generated accrual "
              "schedules and compared with an exact closed form and with a twin broker; held on the schedules observed.")
LEVEL_NOTE = ("Trusted: Python decimal for the reference power. Mutation audit: markup sign, 360-day year, simple interest, floor "
              "removed, query advancing the accrual clock, margin included in the balance are caught.")


CUR = [Cash()]          # the account's base currency in the case at hand (the default dollar, or another one)


LATE = [None]


def mk(dep, rate, markup, t0, half_spread=0.0):
    rate_c = Rate("R")
    fees = BrokerFees(markup=markup, interest_rate=rate_c)
    ex = gen.new_exchange(t0, fees, rate)
    if CUR[0] != Cash():
        ex.process_EventNBBO(EventNBBO(t0, CUR[0], 1.0, 1.0))
    if half_spread:
        # the reference rate itself is quoted two-sided: the rate that applies is its MID
        ex.process_EventNBBO(EventNBBO(t0, rate_c, rate - half_spread, rate + half_spread))
    if LATE[0]:
        # the fee schedule (a user's own, say one that needs a reference to the account) is installed AFTER the
        # account was opened, through the public attribute; the constructor's default schedule refers to another
        # reference-rate instrument, quoted elsewhere or not at all
        b = Broker(ex, base_currency=CUR[0], deposit=dep)
        if b.fees.interest_rate != rate_c and LATE[0] == "other-quoted":
            other = 0.12 if rate < 0.06 else 0.0
            ex.process_EventNBBO(EventNBBO(t0, b.fees.interest_rate, other, other))
        b.fees = fees
        return b, ex, fees
    return Broker(ex, base_currency=CUR[0], deposit=dep, fees=fees), ex, fees


def ref(bal, rate, markup, secs):
    sign = 1 if bal > 0 else -1 if bal < 0 else 0
    c = Decimal(float(rate)) - Decimal(markup) * sign
    out = Decimal(float(bal)) * (1 + c) ** (Decimal(secs) / Decimal(YEAR))
    if bal > 0 and out < Decimal(float(bal)):
        out = Decimal(float(bal))
    return out


def env_episode_scenario(ctx):
    """Interest inside a TradingEnv episode: idle cash, null decisions, a constant reference rate that is quoted ONCE at
    the start (or every few days) - against the same episode with the unchanged rate re-quoted at every timestep.  The
    balance over a constant-rate interval does not depend on how often the rate is repeated, and it grows."""
    import numpy as np
    from tradingenv.env import TradingEnv
    from tradingenv.spaces import BoxPortfolio
    from tradingenv.transmitter import Transmitter
    rng = ctx.rng
    r_ = rng.choice([0.05, 0.02, 0.11])
    mk_ = rng.choice([0.0, 0.01])
    n = rng.randint(6, 30)
    stepd = rng.choice([1, 3, 10])
    every = rng.choice([None, None, 4, 7])          # None: quoted once, at the first timestep
    t0 = datetime(2021, 1, 4)
    grid = [t0 + timedelta(days=stepd * k) for k in range(n)]
    i0 = rng.choice([0, 0, 2])                       # (a later fold start: the rate quote is then part of the replay)
    out = []
    for dense in (False, True):
        rate_c = Rate("R")
        evs = [EventNBBO(t, ETF("A"), 10.0, 10.0) for t in grid]
        for k, t in enumerate(grid):
            if dense or k == 0 or (every and k % every == 0):
                evs.append(EventNBBO(t, rate_c, r_, r_))
        tr = Transmitter(grid, {"training-set": [grid[i0], grid[-1]]})
        tr.add_events(evs)
        env = TradingEnv(action_space=BoxPortfolio([ETF("A")]), transmitter=tr, initial_cash=1000.0,
                         broker_fees=BrokerFees(markup=mk_, interest_rate=rate_c))
        env.reset()
        done = False
        k = 0
        while not done and k < n + 2:
            done = env.step(np.array([0.0]))[2]
            k += 1
        out.append(env.broker.holdings_quantity[Cash()])
    sparse, dense = out
    ctx.check("C06:episode-balance-independent-of-requoting", abs(sparse - dense) <= 1e-9 * dense and dense > 1000.0,
              sparse=sparse, dense=dense, rate=r_, markup=mk_, steps=n, step_days=stepd, requoted_every=every, fold_start=i0)
    ctx.cat("episode-rate-quoted-sparsely")
    ctx.nontrivial = True
    ctx.sample = {"scenario": "TradingEnv episode, rate quoted sparsely vs at every step", "rate": r_, "markup": mk_, "steps": n}


def case(ctx, i, tier):
    if i % 25 == 12:
        return env_episode_scenario(ctx)
    if i % 7 == 3:
        # the process runs in a local time zone with daylight saving; the (naive) accrual instants straddle a switch
        from vf import core
        with core.local_timezone(ctx.rng.choice(["EST5EDT,M3.2.0,M11.1.0", "CET-1CEST,M3.5.0,M10.5.0/3"])):
            ctx.cat("process-in-a-dst-time-zone")
            return _case(ctx, i, tier, dst=True)
    return _case(ctx, i, tier)


def _case(ctx, i, tier, dst=False):
    rng = ctx.rng
    CUR[0] = Cash() if rng.random() < 0.75 else Cash(rng.choice(["EUR", "GBP"]))
    LATE[0] = rng.choice(["other-quoted", "other-unquoted"]) if rng.random() < 0.15 else None
    if LATE[0]:
        ctx.cat("fee-schedule-installed-after-construction")
    if CUR[0] != Cash():
        ctx.cat("base-currency-not-the-default")
    t0 = datetime(rng.choice([1999, 2000, 2019, 2020, 2023, 2024]), rng.choice([1, 2, 3, 7, 12]), rng.choice([1, 15, 28]))
    if dst:
        # a day or two before a spring-forward / fall-back night of 2019 (US: 10 Mar, 3 Nov; EU: 31 Mar, 27 Oct)
        t0 = rng.choice([datetime(2019, 3, 9, 20), datetime(2019, 11, 2, 20), datetime(2019, 3, 30, 20), datetime(2019, 10, 26, 20)])
    rate = rng.choice([rng.uniform(-0.05, 0.2499), rng.uniform(0, 0.05), 0.0, 0.2499])
    markup = rng.choice([0, 0, rng.uniform(0, 0.1), 0.005])
    if 1 + rate - markup <= 0.01:
        markup = 0
    half_spread = 0.0
    if rng.random() < 0.3:
        half_spread = rng.choice([0.0025, 0.01])
        rate = ((rate - half_spread) + (rate + half_spread)) / 2     # the mid the book will report
        ctx.cat("rate-quoted-two-sided")
    if not half_spread and rng.random() < 0.25:
        # the reference rate arrives as a numpy float32 / a Python int (feeds built from float32 tables, whole
        # percentages): the rate that applies is that number exactly, and balances keep double precision
        rq = rng.choice(["f32", "f32", "int"])
        rate = np.float32(rate) if rq == "f32" else 0
        if rq == "int":
            markup = rng.choice([0, 0.005])
        ctx.cat("rate-quote-type:" + rq)
    mode = rng.choice(["plain", "plain", "negative-by-leverage", "margined", "plain-negdeposit"])
    total = rng.choice([1, 60, 86400, YEAR, rng.randint(1, 40 * YEAR), rng.randint(1, 10 * 86400)])
    if dst:
        total = rng.choice([6 * 3600, 2 * 86400, 5 * 86400])
    k = min(rng.choice([1, 1, 2, 5, 50, 500]), total)
    cuts = [0] + (sorted(rng.sample(range(1, total), k - 1)) if k > 1 else []) + [total]
    if rng.random() < 0.3:
        # sub-second spacing: accrual instants with microsecond parts (elapsed time is NOT a whole
        # number of seconds) - lengths are exact multiples of 1e-6 s
        total = rng.choice([1, 3600, 86400, rng.randint(1, 30 * 86400)])
        k = rng.choice([2, 5, 50, 500])
        us = sorted(rng.sample(range(1, total * 10 ** 6), min(k - 1, total * 10 ** 6 - 1)))
        cuts = [0.0] + [u / 1e6 for u in us] + [float(total)]
        cuts_us = [0] + us + [total * 10 ** 6]
        ctx.cat("sub-second-spacing")
    else:
        cuts_us = [c * 10 ** 6 for c in cuts]
    aware = rng.random() < 0.2
    if aware:
        # timezone-AWARE timestamps; the same instants are expressed in changing UTC offsets
        from datetime import timezone
        zones = [timezone.utc, timezone(timedelta(hours=9)), timezone(timedelta(hours=-5)), timezone(timedelta(minutes=330))]
        ctx.cat("tz-aware-changing-offsets")
    mag = 10 ** rng.uniform(-2, 9)
    interleaved = False
    if mode == "negative-by-leverage":
        dep = max(mag, 1.0)
        b, ex, fees = mk(dep, rate, markup, t0, half_spread)
        twin, ex2, _ = mk(dep, rate, markup, t0, half_spread)
        c = ETF("A")
        lev = rng.uniform(1.2, 4.0)
        for bb, e in ((b, ex), (twin, ex2)):
            e.process_EventNBBO(EventNBBO(t0, c, 100.0, 100.0))
            bb.transact(Trade(t0, c, lev * dep / 100.0, 100.0, 100.0, fees))
    elif mode == "margined":
        dep = max(mag, 10.0)
        b, ex, fees = mk(dep, rate, markup, t0, half_spread)
        twin, ex2, _ = mk(dep, rate, markup, t0, half_spread)
        c = gen.UserFuture("F", 5.0, rng.choice([0.05, 0.3, 1.0]))
        q = rng.choice([-1, 1]) * rng.uniform(0.2, 0.9) * dep / (100.0 * 5.0) / c.margin_requirement
        for bb, e in ((b, ex), (twin, ex2)):
            e.process_EventNBBO(EventNBBO(t0, c, 100.0, 100.0))
            bb.transact(Trade(t0, c, q, 100.0, 100.0, fees))
        ctx.check("C06:setup-margin-posted", b.holdings_margins[c] > 0)
    else:
        dep = mag if mode == "plain" else -mag
        b, ex, fees = mk(dep, rate, markup, t0, half_spread)
        twin, ex2, _ = mk(dep, rate, markup, t0, half_spread)
    if aware:
        t0 = t0.replace(tzinfo=timezone.utc)
    cash0 = b.holdings_quantity[CUR[0]]
    ctx.cat("mode:" + mode, "cash:" + ("neg" if cash0 < 0 else "pos"), "k:{}".format(k),
            "markup>0" if markup > 0 else "markup=0")
    carry = 0.0
    # the interest clock starts at the first call of either kind (DESIGN 4.2-d)
    b.accrued_interest(t0, True)
    twin.accrued_interest(t0, True)
    for j_, ((a_, c_), (au_, cu_)) in enumerate(zip(zip(cuts, cuts[1:]), zip(cuts_us, cuts_us[1:]))):
        t = t0 + timedelta(microseconds=cu_)
        if aware:
            t = t.astimezone(rng.choice(zones))
        elif dst and rng.random() < 0.4:
            import pandas as pd
            t = pd.Timestamp(t)          # (naive datetime and naive pandas Timestamp mixed between consecutive calls)
        a_, c_ = Decimal(au_) / 10 ** 6, Decimal(cu_) / 10 ** 6
        if j_ + 2 < len(cuts_us) and rng.random() < 0.25:
            # a look-ahead query ("what would I have earned by then?") for an instant BEYOND the next accrual: it
            # answers for the whole stretch from the last accrual and leaves no trace in later accruals
            interleaved = True
            later = rng.randrange(j_ + 2, len(cuts_us))
            t_later = t0 + timedelta(microseconds=cuts_us[later])
            if aware:
                t_later = t_later.astimezone(rng.choice(zones))
            before = dict(b.holdings_quantity)
            qv = b.accrued_interest(t_later, False)
            bal = before[CUR[0]]
            want = ref(bal, rate, markup, Decimal(cuts_us[later]) / 10 ** 6 - a_) - Decimal(float(bal))
            ctx.check("C06:query-changes-nothing", dict(b.holdings_quantity) == before, before=before, ahead=True)
            ctx.check("C06:query-amount", abs(Decimal(float(qv)) - want) <= Decimal(1e-10) * max(abs(Decimal(float(bal))), abs(want)) + Decimal(1e-300),
                      got=float(qv), want=float(want), ahead=True)
            ctx.cat("query-beyond-next-accrual")
        if rng.random() < 0.3:
            interleaved = True
            before = dict(b.holdings_quantity)
            qv = b.accrued_interest(t, False)
            ctx.check("C06:query-changes-nothing", dict(b.holdings_quantity) == before, before=before)
            bal = before[CUR[0]]
            want = ref(bal, rate, markup, c_ - a_) - Decimal(float(bal))
            ctx.check("C06:query-amount", abs(Decimal(float(qv)) - want) <= Decimal(1e-10) * max(abs(Decimal(float(bal))), abs(want)) + Decimal(1e-300),
                      got=float(qv), want=float(want))
        bal_before = b.holdings_quantity[CUR[0]]
        if cash0 > 0 and mode == "plain" and rng.random() < 0.3:
            interleaved = True
            r = Rebalancing(time=t)
            b.rebalance(r)
            amt = r.profit_on_idle_cash
            twin_amt = twin.accrued_interest(t, True)
            # (a recorded rebalance also reports what earlier, refused requests had credited - nobody else does)
            want_rep = carry + float(twin_amt)
            ctx.check("C06:rebalance-reports-interest", float(amt) == want_rep, reported=float(amt), twin=float(twin_amt), carried=carry)
            carry = 0.0
            amt = twin_amt
        elif cash0 > 0 and mode == "plain" and rng.random() < 0.2:
            # a request REFUSED while its trades are computed (a target without quote) on a solvent account; the caller
            # catches the error: the interest of the stretch was credited once (C13 allows it) and the clock moved
            # with it - never taken back while the clock stays advanced, never paid again
            interleaved = True
            r = Rebalancing([ETF("NEVER_QUOTED")], [0.1], time=t)
            try:
                b.rebalance(r)
                failed = False
            except Exception:
                failed = True
            ctx.check("C06:setup-rebalance-fails", failed)
            credited = b.holdings_quantity[CUR[0]] != bal_before
            amt = twin.accrued_interest(t, True)
            if not credited:
                b.accrued_interest(t, True)
            else:
                carry += float(amt)
            ctx.check("C06:failed-rebalance-accrues-once", b.holdings_quantity[CUR[0]] == twin.holdings_quantity[CUR[0]],
                      credited_by_rebalance=credited, account=b.holdings_quantity[CUR[0]], twin=twin.holdings_quantity[CUR[0]],
                      before=bal_before, refused_in="make_trades")
            ctx.cat("refused-request-then-accrual")
        elif mode != "plain" and rng.random() < 0.25:
            # a rebalance that accrues and then FAILS (insolvent account, or the held contract has lost its quote):
            # the interest of the stretch may have been credited (C13) - if it was, the accrual clock moved with
            # it, so that the stretch is never paid twice
            interleaved = True
            if mode != "plain-negdeposit":
                ex.process_EventNBBO(EventNBBO(t, c, float("nan"), float("nan")))
            r = Rebalancing(time=t)
            try:
                b.rebalance(r)
                failed = False
            except Exception:
                failed = True
            if mode != "plain-negdeposit":
                ex.process_EventNBBO(EventNBBO(t, c, 100.0, 100.0))
            ctx.check("C06:setup-rebalance-fails", failed)
            credited = b.holdings_quantity[CUR[0]] != bal_before
            amt = twin.accrued_interest(t, True)
            if not credited:
                b.accrued_interest(t, True)
            ctx.check("C06:failed-rebalance-accrues-once", b.holdings_quantity[CUR[0]] == twin.holdings_quantity[CUR[0]],
                      credited_by_rebalance=credited, account=b.holdings_quantity[CUR[0]], twin=twin.holdings_quantity[CUR[0]],
                      before=bal_before)
            ctx.cat("failed-rebalance-then-accrual")
        else:
            amt = b.accrued_interest(t, True)
            twin.accrued_interest(t, True)
        if bal_before > 0:
            ctx.check("C06:positive-never-charged", amt >= 0, amount=float(amt), balance=bal_before)
        elif bal_before < 0:
            want = ref(bal_before, rate, markup, c_ - a_) - Decimal(float(bal_before))
            ctx.check("C06:negative-charged-at-r+m",
                      abs(Decimal(float(amt)) - want) <= Decimal(1e-10) * max(abs(Decimal(float(bal_before))), abs(want)),
                      got=float(amt), want=float(want), rate=rate, markup=markup)
        again = b.accrued_interest(t, True)
        twin.accrued_interest(t, True)
        ctx.check("C06:same-instant-zero", again == 0, again=float(again))
        bq = dict(b.holdings_quantity)
        try:
            t_early = t - timedelta(seconds=rng.choice([1, 3600]))
            if aware:
                t_early = t_early.astimezone(rng.choice(zones))     # an earlier instant, whatever its offset
            b.accrued_interest(t_early, rng.random() < 0.5)
            ctx.violation("C06:earlier-time-rejected", t=t)
        except ValueError:
            ctx.check("C06:earlier-time-rejected", dict(b.holdings_quantity) == bq)
    got = b.holdings_quantity[CUR[0]]
    want = ref(cash0, rate, markup, Decimal(cuts_us[-1]) / 10 ** 6)
    rel = abs(Decimal(float(got)) - want) / abs(want) if want != 0 else abs(Decimal(float(got)))
    ctx.check("C06:split-invariance", rel <= Decimal(1e-10), cash0=cash0, rate=rate, markup=markup, total=total, k=k,
              got=got, want=float(want), rel=float(rel))
    ctx.check("C06:twin-query-bit-identical", twin.holdings_quantity[CUR[0]] == got,
              twin=twin.holdings_quantity[CUR[0]], got=got)
    if mode == "margined":
        # posted margin earns nothing: the balance grew by the formula on cash only (checked above);
        # the margin itself is unchanged by accruals.
        ctx.check("C06:margin-earns-nothing", {k_: v_ for k_, v_ in b.holdings_margins.items() if v_ != 0} == {k_: v_ for k_, v_ in twin.holdings_margins.items() if v_ != 0} and
                  abs(Decimal(float(got)) - want) <= Decimal(1e-10) * abs(want), margins=b.holdings_margins)
    ctx.nontrivial = k >= 2 and (cash0 < 0 or markup > 0 or interleaved)
    ctx.sample = {"mode": mode, "cash0": cash0, "rate": rate, "markup": markup, "total_s": total, "k": k,
                  "cuts": [float(x) for x in cuts[:12]], "tz_aware": aware}
