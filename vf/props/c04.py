"""C04 - event delivery: complete, exactly-once, on time, in timestamp order (engine EP)."""
import bisect
from datetime import datetime, timedelta

import numpy as np

from tradingenv.env import TradingEnv
from tradingenv.contracts import ETF, AbstractContract
from tradingenv.spaces import BoxPortfolio
from tradingenv.transmitter import Transmitter
from tradingenv.events import EventNBBO

from vf import ep

class RecChild(ep.Rec):
    """All process_<Event> callbacks are INHERITED from ep.Rec."""


class RecABChild(ep.RecAB):
    """Inherits its two subscriptions."""


class RecABOwn(ep.RecAB):
    """Like ep.RecAB, and remembers ON THE INSTANCE what it was handed."""

    def __init__(self, sink=None):
        super().__init__(sink)
        self.mine = []

    def process_EvA(self, event):
        self.mine.append(event.uid)
        super().process_EvA(event)

    def process_EvB(self, event):
        self.mine.append(event.uid)
        super().process_EvB(event)


class RecBuildsFeatures(ep.Rec):
    """A user state that BUILDS its features in its own __init__ (the caller hands over no feature objects): after every
    reset of the state, state.features holds new objects - the ones that must be served from then on."""

    def __init__(self, sink=None, sink2=None):
        ep.Rec.__init__(self, sink, features=[RecABOwn(sink2)])


PROP = "C04"
LEVEL = "exploration"
ENGINE = "EP"
N = {"quick": 4000, "thorough": 160000}
TIME = {"quick": 300, "thorough": 480}
RULE = ("Random grids (2-8 points, gaps 60 s..7 d, given shuffled with a duplicate), events of 4 classes with unique ids placed at "
        "g-1us, g, g+1us, g+L-1us, g+L, g+L+1us, random inside the gap, before the first and after the last grid point, shuffled "
        "insertion; latency L in {0,1,10,30,59.5}; fold windows, warm-up horizons, markov reset, configured episode length; three "
        "episodes per environment (fold A, all data, fold A again). An independent schedule model computed from the inputs alone "
        "gives the exact expected log [history..., Reset, (latent..., REBALANCE, non-latent..., Step)*, Done]; the recording observer's "
        "log (and a second observer with a narrower subscription) must equal it; timestamps non-decreasing incl. Reset/Step/Done/"
        "NewDate, each stamped with the latest delivered market event; env.now() and AbstractContract.now equal the event time inside "
        "every callback. Non-trivial = some event lies exactly at or within 1us of a latency bound or grid point AND (latency>0 or "
        "late fold or warm-up or markov).")
ASSUMPTIONS = ["when a new-date notification must be sent is not stated by the property: only its stamp and position are judged",
               "episodes aborted by TrackRecord's duplicate-timestamp rejection (DESIGN 4.2-c) are judged on the delivered prefix"]
REQUIRED = ["C04:new-date-notifications", "C04:exchange-exactly-once", "C04:delivery-sequence", "C04:second-observer", "C04:timestamps-nondecreasing", "C04:env-notification-stamp",
            "C04:clock-in-callback", "C04:rebalance-stamp", "C04:latency-refused"]
REQUIRED_CATS = ["state-builds-its-own-features", "month-like-gaps", "refused-construction-on-the-same-transmitter", "grid-extended-then-second-env", "observer:inherited-callbacks", "second-env-same-transmitter", "events-added-on-empty-timesteps-then-second-env", "add_timesteps", "add_custom_events", "latency>0", "markov", "warmup", "late-fold", "episode-length", "event-after-grid", "event-before-grid",
                 "event-at-latency-bound"]
REQUIRED_HITS = ["Broker.rebalance"]
TECHNIQUE = "runtime monitoring: recording observer + hook markers compared with an independent delivery-schedule model"
LEVEL_TEXT = ("Exploration: history + executable model. The observer's callback log of real episodes is compared for equality with "
              "the log predicted by an independent schedule model, over boundary-biased event placements and repeated episodes.")
LEVEL_NOTE = ("Trusted: the schedule model (40 lines). Mutation audit: both reverted fixes, '<=' -> '<' at the latency bound, "
              "bisect_right slot, unstable sort, markov filter off by one, warm-up ignored, batch delivered twice, events past the "
              "fold delivered are caught.")


def case(ctx, i, tier):
    rng = ctx.rng
    t0 = datetime(2020, 1, 1, rng.choice([0, 9, 23]))
    n = rng.randint(2, 8)
    gaps = [rng.choice([60, 60, 3600, 86400, 7 * 86400]) for _ in range(n - 1)]
    if rng.random() < 0.2:
        # monthly / four-weekly / yearly bars: consecutive events on different dates with the same day number
        gaps = [86400 * rng.choice([28, 29, 30, 31, 365]) for _ in range(n - 1)]
        t0 = datetime(rng.choice([2019, 2020]), rng.choice([1, 7, 12]), rng.choice([1, 28, 31]), rng.choice([0, 9]))
        ctx.cat("month-like-gaps")
    grid = [t0]
    for g in gaps:
        grid.append(grid[-1] + timedelta(seconds=g))
    # (0.2, 0.7, 0.15, 59.9: fractional latencies that are not exactly representable in binary)
    L = rng.choice([0, 0, 1, 10, 30, 59.5, 0.2, 0.7, 0.15, 59.9, 60, 3600])
    if L >= min(gaps):
        # latency >= minimum gap must be refused
        tr = Transmitter(grid)
        tr.add_events([EventNBBO(grid[0], ETF("X"), 10, 10)])
        try:
            TradingEnv(action_space=BoxPortfolio([ETF("X")]), transmitter=tr, latency=L)
            ctx.violation("C04:latency-refused", latency=L, min_gap=min(gaps))
        except ValueError:
            ctx.check("C04:latency-refused", True)
        L = 0
    evs = []
    uid = 0
    boundary = False

    def mk(t):
        nonlocal uid
        k = rng.choice(["q", "a", "b", "c"])
        uid += 1
        if k == "q":
            e = EventNBBO(t, ETF(rng.choice("XY")), 10, 10)
            e.uid = uid
        elif k == "a":
            e = ep.EvA(t, uid)
        elif k == "b":
            e = ep.EvB(t, uid)
        else:
            e = ep.EvC(t, uid)
        return e

    for gi, g in enumerate(grid):
        for off in [-1e-6, 0, 1e-6, L - 1e-6, L, L + 1e-6, rng.uniform(0, gaps[min(gi, n - 2)])]:
            if rng.random() < 0.45:
                evs.append(mk(g + timedelta(seconds=off)))
                if off in (L - 1e-6, L, L + 1e-6) and L > 0:
                    boundary = True
                    ctx.cat("event-at-latency-bound")
                if off in (-1e-6, 0, 1e-6):
                    boundary = True
        if rng.random() < 0.15 and evs:
            # tie: same timestamp as an earlier event, later insertion
            evs.append(mk(evs[-1].time))
            ctx.cat("timestamp-tie")
    for _ in range(rng.randint(0, 3)):
        evs.append(mk(t0 - timedelta(seconds=rng.uniform(1, 1e6))))
        ctx.cat("event-before-grid")
    for _ in range(rng.randint(0, 2)):
        evs.append(mk(grid[-1] + timedelta(seconds=rng.uniform(1e-6, 1e5))))
        ctx.cat("event-after-grid")
    holes = set()
    if rng.random() < 0.25 and n >= 3:
        # some grid points bear no event at all (they are not steps of any episode - yet)
        holes = {k for k in range(n) if rng.random() < 0.4}
        evs = [e for e in evs if bisect.bisect_left(grid, e.time) not in holes]
    rng.shuffle(evs)
    markov = rng.random() < 0.2
    warm = rng.choice([None, None, timedelta(seconds=rng.choice([30, 4000, 90000]))])
    i0 = rng.randint(0, n - 1)
    i1 = rng.randint(i0, n - 1)
    folds = {"training-set": [grid[i0], grid[i1]], "all": [datetime.min, datetime.max]}
    gin = grid[:]
    rng.shuffle(gin)
    gin += [grid[0]]
    # the three public ways of feeding a Transmitter: constructor timesteps +
    # add_timesteps, add_events, add_custom_events (rows of a DataFrame)
    nsplit = rng.randint(1, len(gin))
    tr = Transmitter(gin[:nsplit], folds, markov, warm)
    if nsplit < len(gin):
        tr.add_timesteps(gin[nsplit:])
        ctx.cat("add_timesteps")
    if rng.random() < 0.3 and evs and isinstance(evs[-1], (ep.EvA, ep.EvB, ep.EvC)):
        # the trailing run of custom events of one class goes through add_custom_events
        cls = type(evs[-1])
        j = len(evs)
        while j > 0 and type(evs[j - 1]) is cls:
            j -= 1
        tail = evs[j:]
        tr.add_events(evs[:j])
        import pandas as pd
        # the table also carries a column named 'time' (a reference period EARLIER than the
        # publication time): the index, not that column, is the event's time
        df = pd.DataFrame({"uid": [e.uid for e in tail], "v": [e.v for e in tail],
                           "time": [e.time - timedelta(days=1 + e.uid % 3) for e in tail]},
                          index=pd.DatetimeIndex([e.time for e in tail]))
        tr.add_custom_events(df, cls)
        made = tr.events[-len(tail):]
        for e_old, e_new in zip(tail, made):
            e_new._vf_time = e_old.time    # the time the model expects (= the table index)
        evs = evs[:j] + list(made)
        ctx.cat("add_custom_events")
    else:
        tr.add_events(evs)
    eplen = rng.choice([None, None, None, 1, 2, 3])
    sink, sink2 = ep.Sink(), ep.Sink()
    inherit = rng.random() < 0.5
    RecCls, RecABCls = (RecChild, RecABChild) if inherit else (ep.Rec, ep.RecAB)
    ctx.cat("observer:inherited-callbacks" if inherit else "observer:own-callbacks")
    builds = rng.random() < 0.25
    if builds:
        ctx.cat("state-builds-its-own-features")
    env = TradingEnv(action_space=BoxPortfolio([ETF("X"), ETF("Y")]), transmitter=tr,
                     state=(RecBuildsFeatures(sink, sink2) if builds else RecCls(sink, features=[RecABCls(sink2)])),
                     latency=L, episode_length=eplen)
    sink.env = env
    env0 = env
    if L > 0:
        ctx.cat("latency>0")
    if markov:
        ctx.cat("markov")
    if warm:
        ctx.cat("warmup")
    if i0 > 0:
        ctx.cat("late-fold")
    # ---- independent schedule model ------------------------------------ #
    G = grid

    def T(e):
        return getattr(e, "_vf_time", None) or e.time

    def slot(e):
        k = bisect.bisect_left(G, T(e))
        return k if k < len(G) else None

    order = {id(e): k for k, e in enumerate(evs)}
    live = [e for e in evs if slot(e) is not None and not (markov and T(e) < G[0])]
    live.sort(key=lambda e: (T(e), order[id(e)]))

    def latent(e):
        k = slot(e)
        return k > 0 and (T(e) - G[k - 1]).total_seconds() <= L

    ctx.sample = {"grid": G, "latency": L, "markov": markov, "warmup": warm, "fold": [i0, i1], "episode_length": eplen,
                  "events": [[type(e).__name__, e.uid, e.time] for e in evs][:60]}
    others = [x for x in (0, 1, 10, 30, 59.5, 0.2, 0.7) if x < min(gaps) and x != L]
    second_env = bool(others) and rng.random() < 0.3
    with ep.EpMonitor(sink) as epmon:
        for run_i, fold in enumerate(["training-set", "all", "training-set"] + (["all"] if second_env else [])):
            if run_i == 3:
                # a NEW environment on the SAME transmitter with a different latency (data loaded
                # once, environment rebuilt): the latent split must follow the new latency
                L = rng.choice(others)
                after = [e for e in evs if T(e) > G[-1]]
                if after and rng.random() < 0.6:
                    # ... after the GRID was extended (add_timesteps) past its old end: events that were stamped
                    # beyond the grid - loaded long ago, never deliverable so far - now have their timestep
                    last_t = max(T(e) for e in after)
                    new_pts = sorted({G[-1] + (last_t - G[-1]) * f for f in (0.5, 1.0)} | {last_t + timedelta(seconds=min(gaps))})
                    new_pts = [x for x in new_pts if (x - G[-1]).total_seconds() > max(L, max(others)) + 1e-3]
                    new_pts = [x for j_, x in enumerate(new_pts) if j_ == 0 or (x - new_pts[j_ - 1]).total_seconds() > max(L, max(others)) + 1e-3]
                    if new_pts:
                        tr.add_timesteps(list(reversed(new_pts)))
                        G = G + new_pts
                        folds["all"] = [datetime.min, datetime.max]
                        order = {id(e): k for k, e in enumerate(evs)}
                        live = [e for e in evs if slot(e) is not None and not (markov and T(e) < G[0])]
                        live.sort(key=lambda e: (T(e), order[id(e)]))
                        ctx.cat("grid-extended-then-second-env")
                if holes and rng.random() < 0.7:
                    # ... after MORE events were loaded, on grid points that had none: the folds (already used by
                    # the first environment) gain steps
                    more = [mk(grid[k] - timedelta(seconds=rng.choice([0, 0, 1e-6]))) for k in sorted(holes) if rng.random() < 0.7]
                    tr.add_events(more)
                    evs = evs + more
                    order = {id(e): k for k, e in enumerate(evs)}
                    live = [e for e in evs if slot(e) is not None and not (markov and T(e) < G[0])]
                    live.sort(key=lambda e: (T(e), order[id(e)]))
                    if more:
                        ctx.cat("events-added-on-empty-timesteps-then-second-env")
                sink, sink2 = ep.Sink(), ep.Sink()
                env = TradingEnv(action_space=BoxPortfolio([ETF("X"), ETF("Y")]), transmitter=tr,
                                 state=ep.Rec(sink, features=[ep.RecAB(sink2)]), latency=L, episode_length=eplen)
                sink.env = env
                epmon.sinks.append(sink)
                ctx.cat("second-env-same-transmitter")
            if run_i in (1, 2) and rng.random() < 0.3:
                # the caller tries to build ANOTHER environment on this transmitter with a latency the grid cannot
                # carry; the construction is refused (ValueError) and the first environment goes on being used
                try:
                    TradingEnv(action_space=BoxPortfolio([ETF("X")]), transmitter=tr, latency=float(min(gaps)) + rng.choice([0, 1, 3600]))
                    ctx.violation("C04:latency-refused", latency=min(gaps), min_gap=min(gaps), second_env=True)
                except ValueError:
                    ctx.cat("refused-construction-on-the-same-transmitter")
            s, e_ = folds[fold]
            steps = sorted({G[slot(e)] for e in live if s <= G[slot(e)] <= e_})
            del sink.log[:]
            del sink2.log[:]
            del sink.exchange_log[:]
            np.random.seed(ctx.np_seed)
            try:
                env.reset(fold)
            except Exception as ex:
                fits = bool(steps) and (eplen is None or len(steps) >= eplen + 1)
                ctx.check("C04:reset-accepted-when-steps-exist", not fits, fold=fold, error=repr(ex)[:200])
                ctx.cat("reset-refused")
                continue
            ctx.check("C04:reset-accepted-when-steps-exist", bool(steps), fold=fold)
            done = ep.done_at_reset(env, sink)
            nsteps = 0
            dup = False
            while not done:
                if nsteps > len(G) + 2:
                    ctx.violation("C04:episode-bounded", steps=nsteps)
                    return
                try:
                    o, r, done, info = env.step(np.array([0., 0.]))
                except ValueError as ex:
                    if "different timestamps" in str(ex):
                        dup = True
                        ctx.cat("aborted-by-duplicate-stamp")
                        break
                    raise
                nsteps += 1
            log = list(sink.log)
            # which first step did the episode start from?
            a = 0
            if eplen is not None:
                ctx.cat("episode-length")
                pre = [x for x in log[: [x[0] for x in log].index("Reset")] if x[0] == "M"]
                if not ctx.check("C04:history-nonempty", bool(pre)):
                    return
                first = G[slot(pre[-1][5])]
                if not ctx.check("C04:start-inside-fold", first in steps, first=first):
                    return
                a = steps.index(first)
                steps = steps[a: a + eplen + 1]
            exp = []
            first = steps[0]
            origin = first - warm if warm else datetime.min
            if markov:
                hist = [e for e in live if G[slot(e)] == first]
            else:
                hist = [e for e in live if origin <= G[slot(e)] <= first]
            exp += [("M", e.uid) for e in hist]
            exp.append(("Reset",))
            for st in steps[1:]:
                cur = [e for e in live if G[slot(e)] == st]
                exp += [("M", e.uid) for e in cur if latent(e)]
                exp.append(("REB",))
                exp += [("M", e.uid) for e in cur if not latent(e)]
                exp.append(("Step",))
            exp.append(("Done",))
            got = [(x[0], x[1]) if x[0] == "M" else (x[0],) for x in log if x[0] in ("M", "Reset", "REB", "Step", "Done")]
            if dup:
                ctx.check("C04:delivery-sequence", got == exp[:len(got)], fold=fold, got=got[:30], want=exp[:30], prefix=True)
                continue
            ctx.check("C04:delivery-sequence", got == exp, fold=fold, latency=L, markov=markov, warmup=warm,
                      got=got[:40], want=exp[:40])
            # the exchange is an observer too: every delivered quote reaches it exactly once, in order
            ex_want = [x[1] for x in log if x[0] == "M" and isinstance(x[5], EventNBBO)]
            ctx.check("C04:exchange-exactly-once", [u for u in sink.exchange_log if u is not None] == ex_want,
                      got=sink.exchange_log[:30], want=ex_want[:30])
            ab = {e.uid for e in evs if isinstance(e, (ep.EvA, ep.EvB))}
            exp2 = [x[1] for x in exp if x[0] == "M" and x[1] in ab]
            ctx.check("C04:second-observer", [x[1] for x in sink2.log] == exp2, got=[x[1] for x in sink2.log][:30], want=exp2[:30])
            if builds and env is env0:
                # ... and it is the feature object the state owns NOW that was served
                owned = env.state.features[0]
                ctx.check("C04:second-observer", list(owned.mine) == exp2, got=list(owned.mine)[:30], want=exp2[:30],
                          note="the feature currently owned by the state", fold=fold)
            last = None
            last_m = None
            prev_ev, n_newdate = None, 0
            for x in log:
                if x[0] in ("REBEND", "TX"):
                    continue
                # the environment's own new-date notification: exactly one between two consecutive delivered events
                # that fall on different calendar DATES (not merely different day numbers), none otherwise
                if x[0] == "NewDate":
                    n_newdate += 1
                elif x[0] in ("M", "X"):
                    if prev_ev is not None:
                        ctx.check("C04:new-date-notifications", n_newdate == (1 if prev_ev.date() != x[2].date() else 0),
                                  previous=prev_ev, event=x[2], notifications=n_newdate, fold=fold)
                    prev_ev, n_newdate = x[2], 0
                if x[0] == "REB":
                    if last_m is not None:
                        ctx.check("C04:rebalance-stamp", x[2] == last_m and x[3] == last_m, stamp=x[2], latest=last_m)
                    continue
                ctx.check("C04:timestamps-nondecreasing", last is None or x[2] >= last, entry=x[:3], previous=last, fold=fold)
                last = x[2]
                if x[0] in ("M", "X"):
                    last_m = x[2]
                    ctx.check("C04:clock-in-callback", x[3] == x[2] and x[4] == x[2], event=x[:3], env_now=x[3], contract_now=x[4])
                else:
                    ctx.check("C04:env-notification-stamp", x[2] == last_m, kind=x[0], stamp=x[2], latest=last_m, fold=fold)
            ctx.cat("episode")
    ctx.nontrivial = boundary and (L > 0 or i0 > 0 or warm is not None or markov)
