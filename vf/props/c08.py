"""C08 - decision-to-execution timing: FIFO delay and latency pricing (engine EP)."""
from vf import epl

PROP = "C08"
LEVEL = "exploration"
ENGINE = "EP"
N = {"quick": 900, "thorough": 60000}
TIME = {"quick": 300, "thorough": 480}
RULE = ("Same episode generator as C07 (delay d in 0..3, latency {0,5,30}s, extra quotes placed at L-1ms, L, L+1ms and mid-gap, "
        "late folds; every third case runs a second episode on the same environment), Box spaces with per-step unique actions (step index encoded in the weights) and Discrete spaces (every other "
        "case). Oracle: the allocation executed at decision k equals the allocation denoted by the action submitted at k-d (null "
        "action for k<d: zero weights / discrete action 0), i.e. the executed sequence is a prefix-aligned copy of the submitted "
        "one; every trade is priced at the last quote IN THE INPUT STREAM stamped <= t_(k) + latency (computed from the stream, not "
        "from the exchange). Non-trivial = delay >= 1 or latency > 0, with >= 3 decisions.")
ASSUMPTIONS = ["bar-shaped streams; latency below the minimum timestep gap"]
REQUIRED = ["C08:fifo-delay", "C08:latency-pricing", "C08:execution-after-latent-quotes"]
REQUIRED_CATS = ["discrete-space-counted-from-nonzero-start", "action-buffer-kind:list", "action-buffer-kind:series", "decision-refused-then-resubmitted", "action-buffer-reused-in-place", "fold-starts-at-latent-only-timestep", "events-added-after-environment-built", "rebuilt-with-other-latency", "repeated-episode", "C08:null-executed", "C08:delayed-executed", "discrete", "box", "delay:0", "delay:1", "delay:2", "delay:3",
                 "latency:5", "latency:30", "latency:0.2", "latency:0.7"]
REQUIRED_HITS = ["Broker.rebalance"]
TECHNIQUE = "runtime monitoring: executed allocations and trade prices compared with a FIFO model of the submitted action sequence (refused and delayed-refused decisions included) and with the input quote stream"
LEVEL_TEXT = ("Exploration. Unique per-step actions make the executed sequence identify its origin, so FIFO/no-drop/no-duplicate is "
              "decided by sequence equality; latency pricing is decided against the raw input stream.")
LEVEL_NOTE = ("Trusted: the harness' reading of the input stream. Mutation audit: reverted null-action fix, LIFO pop, maxlen=d, "
              "'<=' -> '<' at the latency bound, null action skipped are caught.")


def case(ctx, i, tier):
    discrete = i % 2 == 1
    cfg, outs = epl.ledger_episode(ctx, {"C08"}, chain=(i % 10 == 8), discrete=discrete)
    ctx.nontrivial = len(outs) >= 3 and (cfg["d"] >= 1 or cfg["L"] > 0)
    if i % 4 == 1 and not cfg["chain"]:
        # same Transmitter, new environment, different latency
        pre = epl.rebuild_with_latency(ctx, cfg, cfg["_prebuilt"][0])
        if pre is not None:
            epl.ledger_episode(ctx, {"C08"}, prebuilt=pre)
            ctx.cat("rebuilt-with-other-latency")
    elif i % 3 == 0:
        # a second episode on the SAME environment: the null action must again be
        # executed for the first d steps (pending decisions of episode 1 are gone)
        epl.ledger_episode(ctx, {"C08"}, prebuilt=cfg["_prebuilt"])
