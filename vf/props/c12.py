"""C12 - trade filtering: threshold, liquidations and whole lots (engine BL)."""
import math
from datetime import datetime

import numpy as np

from tradingenv.contracts import ETF, ES, ZN, Cash
from tradingenv.broker.broker import Broker
from tradingenv.broker.trade import Trade
from tradingenv.broker.fees import BrokerFees
from tradingenv.broker.rebalancing import Rebalancing
from tradingenv.events import EventNBBO

from vf import gen
from vf.ledger import Ledger

PROP = "C12"
LEVEL = "exploration"
ENGINE = "BL"
N = {"quick": 6000, "thorough": 400000}
TIME = {"quick": 300, "thorough": 420}
RULE = ("Rebalancing.make_trades on generated (holdings, targets, quotes, threshold) with targets crafted per contract from "
        "{random, zero, absent, imbalance weight exactly at / 1e-9 below / 1e-9 above the threshold, sub-lot imbalance in (-1,1)}, "
        "tiny (notional below a fixed commission); weight and contract-count measures, fractional and whole-lot modes, cash listed or not, thresholds {0,0.01,0.05,0.2}, fixed/proportional fees. "
        "An independent computation of target, imbalance and imbalance weight gives the expected trade set; every trade must be "
        "non-cash, non-zero, unique per contract and quoted at the book; fractional qty == imbalance, whole-lot qty == "
        "trunc(imbalance). Non-trivial = threshold > 0 with a crafted at/below/above target, or whole-lot mode with a sub-lot "
        "imbalance, or a held contract absent from the target.")
ASSUMPTIONS = ["ties within 1e-12 relative of the threshold / 1e-9 of an integer lot accept both outcomes",
               "whole-lot mode: the threshold is compared with the weight of the imbalance itself (untruncated), as the property words it"]
REQUIRED = ["C12:exact-threshold", "C12:trade-set", "C12:trade-wellformed", "C12:fractional-quantity", "C12:whole-lot-truncation", "C12:no-exception"]
REQUIRED_CATS = ["user-contract-with-its-own-hash", "after-a-refused-request", "quoted-at-zero", "mode:contracts", "mode:balanced", "previewed-on-another-state", "via-portfolio-space", "whole-lot-with-fractional-holding", "mode:tiny", "mode:exact-at", "mode:exact-notch-below", "mode:exact-notch-above", "mode:at", "mode:below", "mode:above", "mode:sublot", "mode:absent-held", "whole-lot", "fractional"]
REQUIRED_HITS = ["Rebalancing.make_trades"]
TECHNIQUE = "runtime monitoring: reference model of the stated filtering rule compared with Rebalancing.make_trades on boundary-biased inputs"
LEVEL_TEXT = ("Exploration with boundary-biased generation: the real make_trades is compared with an independent evaluation of the "
              "stated rule on thousands of inputs placed exactly at, just below and just above the threshold and inside one lot.")
LEVEL_NOTE = ("Trusted: the harness' own imbalance arithmetic (floats; ties are accepted either way). Mutation audit: reverted "
              "sub-lot fix, '<' -> '<=', round() for int(), threshold applied to liquidations, cash traded are caught.")


def exact_case(ctx):
    """Imbalance weight EXACTLY at the threshold, in exactly representable
    binary arithmetic (powers of two), so no tie tolerance applies: 'at least
    the threshold' must trade, one ulp-free notch below must not."""
    rng = ctx.rng
    t = datetime(2019, 1, 1)
    fees = BrokerFees()
    ex = gen.new_exchange(t, fees)
    c = rng.choice([ETF("A"), gen.SpotMult("P2", 2.0), gen.UserFuture("F4", 4.0, 0.25), gen.Listing("VOD", "LSE")])
    px = float(2 ** rng.randint(2, 8))
    dep = float(2 ** rng.randint(18, 24))
    ex.process_EventNBBO(EventNBBO(t, c, px, px))
    b = Broker(ex, deposit=dep)
    h = float(rng.choice([0, 0, 3, -5, 16]))
    if h:
        b.transact(Trade(t, c, h, px, px))
    nlv = b.net_liquidation_value()
    thr = rng.choice([0.5, 0.25, 0.125, 0.0625])
    sgn = rng.choice([-1, 1])
    where = rng.choice(["at", "notch-below", "notch-above"])
    notch = 2.0 ** -12
    w_imb = sgn * (thr + {"at": 0.0, "notch-below": -notch, "notch-above": notch}[where])
    measure = rng.choice(["weight", "nr-contracts"])
    imb = w_imb * nlv / (px * c.multiplier)
    tq = h + imb
    target = tq * px * c.multiplier / nlv if measure == "weight" else tq
    frac = rng.random() < 0.7 or imb != int(imb)
    r = Rebalancing([c], [target], measure=measure, fractional=frac, margin=thr, time=t)
    trades = r.make_trades(b)
    exact = (nlv == dep) and (target * nlv / px / c.multiplier == tq if measure == "weight" else True)
    ctx.cat("mode:exact-" + where)
    if exact and tq != 0:
        want = where != "notch-below"
        ctx.check("C12:exact-threshold", (len(trades) == 1) == want and (not trades or trades[0].quantity == imb),
                  where=where, threshold=thr, imbalance_weight=w_imb, trades=[x.quantity for x in trades], want=want)
    else:
        ctx.cat("exact-case-not-exact")
    ctx.nontrivial = True
    ctx.sample = {"exact": True, "contract": gen.describe_contract(c), "price": px, "deposit": dep, "held": h,
                  "threshold": thr, "where": where, "measure": measure, "target": target}


def case(ctx, i, tier):
    if i % 8 == 7:
        return exact_case(ctx)
    rng = ctx.rng
    pool = [ETF("A"), ETF("B"), ES(2019, 6), ETF("C"), ZN(2019, 9), gen.SpotMult("L10", 10.0), gen.Listing("VOD", "LSE"), gen.Listing("VOD", "XETRA")]
    rng.shuffle(pool)
    cs = pool[: rng.randint(1, 4)]
    if any(isinstance(c, gen.Listing) for c in cs):
        ctx.cat("user-contract-with-its-own-hash")
    fees = BrokerFees(fixed=rng.choice([0, 0, 5.0]), proportional=rng.choice([0, 1e-3]))
    t = datetime(2019, 1, 1)
    ex = gen.new_exchange(t, fees)
    q = {}
    for c in cs:
        mid = rng.choice([3, 20, 100, 2500])
        sp = rng.choice([0, 0, 1e-3])
        q[c] = (mid * (1 - sp / 2), mid * (1 + sp / 2))
        if rng.random() < 0.06:
            # quoted at exactly zero (a calendar spread at par, a worthless option-like contract): still a quote
            q[c] = (0.0, rng.choice([0.0, 0.0, 0.5]))
            ctx.cat("quoted-at-zero")
        ex.process_EventNBBO(EventNBBO(t, c, *q[c]))
    dep_ = rng.choice([1e4, 1e6, 1e8])
    b = Broker(ex, deposit=dep_, fees=fees)
    led = Ledger(dep_, fees)          # an independent account of what the positions are worth
    for c in cs:
        led.quote(c, *q[c])
    frac = rng.random() < 0.5
    measure = rng.choice(["weight", "weight", "nr-contracts"])
    for c in cs:
        if rng.random() < 0.6:
            unit = b.net_liquidation_value() / (q[c][1] * c.multiplier) if q[c][1] > 0 else rng.uniform(2, 20)
            dq = rng.choice([-1, 1]) * rng.uniform(0.05, 0.5) * unit
            if not frac:
                if rng.random() < 0.25 and 3 * q[c][1] * c.multiplier < 0.3 * b.net_liquidation_value():
                    # a fractional left-over from earlier fractional trading (possibly below one lot)
                    dq = rng.choice([-1, 1]) * rng.choice([0.4, 0.999, 2.5, rng.uniform(0.05, 3)])
                    ctx.cat("whole-lot-with-fractional-holding")
                else:
                    dq = float(int(dq)) or 1.0
            b.transact(Trade(t, c, dq, *q[c], fees))
            led.trade(c, dq)
    if rng.random() < 0.2:
        # an EARLIER request on this account was refused while its trades were computed (it targeted a contract that
        # has no quote); the caller caught the error, the market moved, and the request under test follows
        try:
            b.rebalance(Rebalancing(list(cs) + [ETF("NEVER_QUOTED")], [0.05] * len(cs) + [0.1], time=t))
        except Exception:
            pass
        held = [c for c in cs if b.holdings_quantity.get(c, 0.0) != 0 and q[c][0] > 0]
        gross_ = sum(abs(b.holdings_quantity.get(c, 0.0)) * q[c][1] * c.multiplier for c in cs)
        if held and gross_ < 20 * b.net_liquidation_value(False):
            c = rng.choice(held)
            f = rng.uniform(0.996, 1.004)
            q[c] = (q[c][0] * f, q[c][1] * f)
            ex.process_EventNBBO(EventNBBO(t, c, *q[c]))
            led.quote(c, *q[c])
        # the imbalance weights of the request under test are relative to what the account is worth NOW
        v_now = b.net_liquidation_value(False)
        ctx.check("C12:weights-relative-to-current-value", abs(v_now - led.nlv()) <= 1e-9 * led.scale(), broker=v_now, ledger=led.nlv())
        ctx.cat("after-a-refused-request")
    thr = rng.choice([0, 0, 0.01, 0.05, 0.2])
    nlv = b.net_liquidation_value()
    hold = b.holdings_quantity
    tgt, keys, modes = [], [], {}
    for c in cs + [Cash()]:
        if rng.random() < 0.25:
            if not isinstance(c, Cash):
                modes[c] = "absent-held" if hold.get(c, 0.0) != 0 else "absent-flat"
            continue
        keys.append(c)
        if isinstance(c, Cash):
            tgt.append(rng.uniform(0, 1))
            ctx.cat("cash-listed")
            continue
        h = hold.get(c, 0.0)
        mode = rng.choice(["rand", "zero", "at", "below", "above", "sublot", "tiny", "balanced"])
        zero_px = q[c][1] == 0 or q[c][0] == 0
        if zero_px:
            # (a weight cannot be sized at a zero price; a number of contracts can)
            mode = rng.choice(["zero", "balanced", "sublot", "contracts"]) if measure == "nr-contracts" else "zero"
        if mode == "balanced" and (measure != "nr-contracts" or h == 0):
            mode = "rand" if not zero_px else "contracts"
        modes[c] = mode
        if mode == "contracts":
            w = h + rng.choice([-1, 1]) * rng.uniform(1.5, 9.0)
        elif mode == "balanced":
            # the target is EXACTLY what is held: nothing to trade for this contract (while others may)
            w = h
        elif mode == "zero":
            w = 0.0
        elif mode == "rand":
            w = rng.uniform(-1, 1.5)
            if measure == "nr-contracts":
                w = w * nlv / (q[c][1] * c.multiplier)
        else:
            sgn = rng.choice([-1, 1])
            if mode == "sublot":
                imb = sgn * rng.uniform(0.01, 0.99)
            elif mode == "tiny":
                # an imbalance worth 0.5 - 3 units of currency (below a fixed commission of 5)
                imb = sgn * rng.uniform(0.5, 3.0) / (q[c][1] * c.multiplier)
            else:
                kf = {"at": 1.0, "below": 1 - 1e-9, "above": 1 + 1e-9}[mode]
                px = q[c][1] if sgn > 0 else q[c][0]
                imb = sgn * kf * thr * nlv / (px * c.multiplier)
            tq = h + imb
            if measure == "weight":
                px = q[c][1] if tq > 0 else q[c][0]
                w = tq * px * c.multiplier / nlv
            else:
                w = tq
        tgt.append(w)
    for m in modes.values():
        ctx.cat("mode:" + m)
    ctx.cat("whole-lot" if not frac else "fractional", "measure:" + measure, "thr:{}".format(thr))
    if rng.random() < 0.3:
        # the request is built by the action space (as TradingEnv.step does), not by hand
        from tradingenv.spaces import BoxPortfolio
        space = BoxPortfolio(keys, -1e12, 1e12, as_weights=(measure == "weight"), fractional=frac, margin=thr)
        r = space.make_rebalancing_request(np.array(tgt, dtype=float), t, b)
        ctx.cat("via-portfolio-space")
    else:
        r = Rebalancing(keys, tgt, measure=measure, fractional=frac, margin=thr, time=t)
    ctx.sample = {"contracts": [gen.describe_contract(c) for c in cs], "quotes": {c.symbol: q[c] for c in cs},
                  "holdings": {c.symbol: hold.get(c, 0.0) for c in cs}, "nlv": nlv, "threshold": thr, "measure": measure,
                  "fractional": frac, "targets": {k.symbol: v for k, v in zip(keys, tgt)}, "modes": {c.symbol: m for c, m in modes.items()}}
    if rng.random() < 0.3:
        # the request was PREVIEWED earlier against another account state (another broker on the same
        # exchange with other holdings); what counts is the state it is finally computed against
        try:
            pb = Broker(ex, deposit=rng.choice([1e4, 1e6]), fees=fees)
            c0 = rng.choice(cs)
            pb.transact(Trade(t, c0, float(rng.randint(1, 3)), *q[c0], fees))
            r.make_trades(pb)
        except Exception:
            pass
        ctx.cat("previewed-on-another-state")
    try:
        trades = r.make_trades(b)
    except Exception as e:
        ctx.violation("C12:no-exception", error=repr(e)[:300])
        return
    ctx.check("C12:no-exception", True)
    seen = {}
    for tr in trades:
        ok = not isinstance(tr.contract, Cash) and tr.quantity != 0 and tr.quantity == tr.quantity \
            and tr.contract not in seen and tr.contract in q \
            and (tr.bid_price, tr.ask_price) == q.get(tr.contract, (None, None)) \
            and (frac or tr.quantity == int(tr.quantity))
        ctx.check("C12:trade-wellformed", ok, contract=str(tr.contract), qty=tr.quantity, bid=tr.bid_price, ask=tr.ask_price)
        seen[tr.contract] = tr
    tmap = {k: v for k, v in zip(keys, tgt) if not isinstance(k, Cash) and v != 0}
    for c in cs:
        h = hold.get(c, 0.0)
        if c in tmap:
            if measure == "weight":
                px = q[c][1] if tmap[c] > 0 else q[c][0]
                tq = tmap[c] * nlv / px / c.multiplier
            else:
                tq = tmap[c]
        else:
            tq = 0.0
        imb = tq - h
        amb = False
        if imb == 0:
            exp = False
        else:
            px = q[c][1] if imb > 0 else q[c][0]
            w = abs(imb * px * c.multiplier / nlv)
            amb = abs(w - thr) <= 1e-12 * max(thr, 1e-300) and c in tmap
            exp = (w >= thr) or (c not in tmap)
            if not frac:
                if abs(imb) < 1:
                    exp = False
                if abs(abs(imb) - round(abs(imb))) < 1e-9:
                    amb = True
        got = c in seen
        if not amb:
            ctx.check("C12:trade-set", got == exp, contract=c.symbol, imbalance=imb, got=got, expected=exp,
                      threshold=thr, mode=modes.get(c))
        else:
            ctx.cat("tie-accepted")
        if got and frac:
            ctx.check("C12:fractional-quantity", abs(seen[c].quantity - imb) <= 1e-9 * max(1, abs(imb)),
                      got=seen[c].quantity, want=imb)
        if got and not frac and not amb:
            ctx.check("C12:whole-lot-truncation", seen[c].quantity == math.trunc(imb), got=seen[c].quantity, imbalance=imb)
    ctx.nontrivial = (thr > 0 and any(m in ("at", "below", "above") for m in modes.values())) or \
        (not frac and "sublot" in modes.values()) or "absent-held" in modes.values()
