"""C18 - the tabular environment serves exactly the data it was given (engine XY)."""
import math

import numpy as np
import pandas as pd
import pandas_market_calendars

from tradingenv.env import TradingEnvXY

from vf import ep

PROP = "C18"
LEVEL = "exploration"
ENGINE = "XY"
N = {"quick": 130, "thorough": 5000}
TIME = {"quick": 300, "thorough": 540}
RULE = ("Random tabular configurations: 50-160 rows, business or calendar days, X shifted +-15 days and +-10 rows against Y, up to 3 X "
        "rows dropped, NaNs in both, 1-4 features, 1-3 assets, window {1,2,3,7,15,30}, stride {none,1,2,3,5}, transformer "
        "{none,z-score,yeo-johnson}, clip {0.5,2,5}, spread {0,2e-4,1e-2}, NYSE/LSE calendars, start/end bounds, late folds (warm-up "
        "replay), rate or none. At EVERY call of the episode: obs == env.X.loc[:now].iloc[-window:] thinned by the stride from the "
        "newest row backwards (bit-exact), shape == observation_space.shape, obs in observation_space, |obs| <= 5; for every asset with "
        "a price on that date bid == y - y*s/2 and ask == y + y*s/2 (bit-exact); rate book == last given rate <= now; now in Y.index, "
        "not a holiday of the configured calendar, strictly increasing; >= window rows of X at or before the first step; the published "
        "X equals an independent recomputation from the inputs for transformer none (reindex, forward-fill, zero-fill, clip). "
        "Non-trivial = window > 1 or stride set or a late fold or NaNs present.")
ASSUMPTIONS = ["env.X is by definition the published transformed table; tables with gaps longer than the warm-up horizon "
               "(3 + 2*window days) are not 'daily or finer' and are not generated",
               "a configuration with too little data may be refused at construction (counted as config-rejected)"]
REQUIRED = ["C18:kept-observation-unchanged", "C18:observation", "C18:bounds", "C18:step-date", "C18:quotes", "C18:rate", "C18:full-window", "C18:published-table"]
REQUIRED_CATS = ["prices-spanning-orders-of-magnitude", "index-unit-not-microseconds", "decision-refused-then-resubmitted", "latency-with-intraday-feature-rows", "earlier-fold-after-later-fold", "last-date-is-a-holiday", "fold-after-holiday-cluster", "rate-off-price-dates", "window>1", "stride", "late-fold", "calendar:LSE", "calendar:NYSE", "transformer:None", "transformer:z-score",
                 "transformer:yeo-johnson"]
TECHNIQUE = "runtime monitoring: observations, quotes and step dates of real episodes compared at every call with the tables the environment was given"
LEVEL_TEXT = ("Exploration over generated table shapes and options; at every call of every episode the observation, the traded quotes, "
              "the rate and the step date are compared bit-exactly with the given tables.")
LEVEL_NOTE = ("Trusted: pandas indexing, pandas_market_calendars' holiday list. Mutation audit: timesteps[window:] off by one, "
              "half-spread error, holiday filter dropped, stride from the oldest row, clip beyond the declared bound, bfill are caught.")

_HOL = {}


def hol(cal):
    if cal not in _HOL:
        _HOL[cal] = set(pd.Timestamp(x) for x in pandas_market_calendars.get_calendar(cal).holidays().holidays)
    return _HOL[cal]


def case(ctx, i, tier):
    r = ctx.rng
    rng = ctx.nrng
    n = r.randint(50, 160)
    freq = r.choice(["B", "B", "D"])
    start = pd.Timestamp("2019-01-01") + pd.Timedelta(days=r.randint(0, 700))
    dY = pd.date_range(start, periods=n, freq=freq)
    offx = r.randint(-15, 15)
    dX = pd.date_range(start + pd.Timedelta(days=offx), periods=n + r.randint(-10, 10), freq=r.choice(["B", "D"]))
    around_new_year = r.random() < 0.3
    if around_new_year:
        # a table spanning Christmas / New Year, used below with a fold that starts on the first sessions of January
        start = pd.Timestamp(r.choice([2018, 2019, 2020]), 11, 1) + pd.Timedelta(days=r.randint(0, 20))
        n = max(n, 70)
        freq = "B"
        dY = pd.date_range(start, periods=n, freq=freq)
        dX = pd.date_range(start - pd.Timedelta(days=r.randint(0, 15)), periods=n + r.randint(10, 20), freq="B")
    nf = r.randint(1, 4)
    ny = r.randint(1, 3)
    X = pd.DataFrame(rng.normal(0, 2, [len(dX), nf]), dX, columns=["f%d" % j for j in range(nf)])
    Y = pd.DataFrame(100 * np.exp(np.cumsum(rng.normal(0, 0.01, [n, ny]), 0)), dY, columns=["y%d" % j for j in range(ny)])
    if ny >= 2 and r.random() < 0.2:
        # prices spanning many orders of magnitude across the assets of one table (a micro-priced token next to an
        # index level): the quotes are the given prices whatever their scale
        Y.iloc[:, 0] = Y.iloc[:, 0] * r.choice([1e-8, 1e-6])
        if ny >= 3:
            Y.iloc[:, 2] = Y.iloc[:, 2] * 1e9
        ctx.cat("prices-spanning-orders-of-magnitude")
    nnan = 0
    for _ in range(r.randint(0, 8)):
        X.iloc[r.randrange(len(dX)), r.randrange(nf)] = np.nan
        nnan += 1
    for _ in range(r.randint(0, 4)):
        Y.iloc[r.randrange(1, n - 1), r.randrange(ny)] = np.nan
        nnan += 1
    if r.random() < 0.3 and not around_new_year:
        X = X.drop(X.index[r.sample(range(len(dX)), 3)])
    lat = 0
    if not around_new_year and freq in ("B", "D") and r.random() < 0.25:
        # data finer than the price grid, with a latency: some feature rows are stamped 30 s after a price timestamp
        # (they reach the observation one step later, through the latent batch of the next step)
        lat = 60
        extra_idx = pd.DatetimeIndex([t_ + pd.Timedelta(seconds=30) for t_ in dY if r.random() < 0.4])
        if len(extra_idx):
            X = pd.concat([X, pd.DataFrame(rng.normal(0, 2, [len(extra_idx), nf]), extra_idx, columns=X.columns)]).sort_index()
            X = X[~X.index.duplicated()]
        ctx.cat("latency-with-intraday-feature-rows")
    window = r.choice([1, 1, 2, 3, 7, 15, 30]) if not lat else r.choice([2, 3, 7])
    stride = r.choice([None, None, 1, 2, 3, 5])
    tf = r.choice([None, "z-score", "yeo-johnson"])
    clip = r.choice([5., 2., 0.5])
    SP = r.choice([0, 0.0002, 0.01])
    cal = r.choice(["NYSE", "NYSE", "LSE"])
    kw = {}
    if r.random() < 0.3:
        kw["start"] = dY[r.randint(0, n // 3)]
    if r.random() < 0.3:
        kw["end"] = dY[r.randint(2 * n // 3, n - 1)]
    if not around_new_year and r.random() < 0.3:
        # the last usable date (the `end` argument, or the last row of Y) is itself an exchange holiday that
        # has a row in the table
        late_h = [t for t in dY[n // 2:] if t in hol(cal)]
        if late_h:
            h = r.choice(late_h)
            if r.random() < 0.5:
                kw["end"] = h
            else:
                kw.pop("end", None)
                Y = Y.loc[:h]
                n = len(Y)
                dY = Y.index
            ctx.cat("last-date-is-a-holiday")
    folds = None
    if r.random() < 0.4:
        a = dY[r.randint(n // 3, n // 2)]
        folds = {"training-set": [a.to_pydatetime(), dY[-1].to_pydatetime()]}
        if r.random() < 0.6:
            # ... and an EARLIER fold, played after the later one on the same environment
            folds["early"] = [dY[0].to_pydatetime(), (a - pd.Timedelta(days=1)).to_pydatetime()]
    if around_new_year:
        # market data has no rows on exchange holidays; the fold starts right after the holiday cluster
        H0 = hol(cal)
        X = X[[t not in H0 for t in X.index]]
        Y = Y[[t not in H0 for t in Y.index]]
        jan = [t for t in Y.index if t.month == 1 and t.day <= 6]
        if jan:
            folds = {"training-set": [r.choice(jan[:3]).to_pydatetime(), Y.index[-1].to_pydatetime()]}
            window = r.choice([7, 15, 30])
            ctx.cat("fold-after-holiday-cluster")
    rate = pd.Series(rng.uniform(-0.01, 0.04, n), dY, name="rr") if r.random() < 0.5 else None   # negative fixings are valid rates
    if rate is not None and r.random() < 0.4:
        # fixings published on their own cadence (every 2nd / 3rd calendar day): many are dated on days
        # without a price row and must reach the exchange at the next step
        dR = pd.date_range(dY[0], dY[-1], freq=r.choice(["2D", "3D"]))
        rate = pd.Series(rng.uniform(-0.01, 0.04, len(dR)), dR, name="rr")
        ctx.cat("rate-off-price-dates")
    sd = r.choice([0, 1])
    ctx.sample = {"rows_Y": n, "rows_X": len(X), "freq": freq, "x_offset_days": offx, "features": nf, "assets": ny,
                  "window": window, "stride": stride, "transformer": tf, "clip": clip, "spread": SP, "calendar": cal,
                  "start": kw.get("start"), "end": kw.get("end"), "late_fold": folds is not None, "rate": rate is not None,
                  "nans": nnan}
    ctx.cat("calendar:" + cal, "transformer:" + str(tf))
    if r.random() < 0.3:
        # the caller's tables carry a DatetimeIndex of another resolution (nanoseconds from older files, seconds or
        # milliseconds from numpy arrays), possibly a different one per table: the same dates all the same
        uy = r.choice(["ns", "s", "ms"])
        Y.index = Y.index.as_unit(uy)
        if r.random() < 0.5:
            X.index = X.index.as_unit(r.choice(["ns", "s", "ms", "us"]))
        if rate is not None and r.random() < 0.5:
            rate.index = rate.index.as_unit(r.choice(["ns", "s", "us"]))
        ctx.cat("index-unit-not-microseconds")
    Xin, Yin = X.copy(), Y.copy()
    try:
        env = TradingEnvXY(X, Y, window=window, stride=stride, spread=SP, transformer=tf, clip=clip, calendar=cal, folds=folds,
                           rate=rate, margin=0., steps_delay=sd, latency=lat, **kw)
    except Exception as ex:
        ctx.cat("config-rejected")
        ctx.notes["rejected"] = repr(ex)[:200]
        return
    if window > 1:
        ctx.cat("window>1")
    if stride:
        ctx.cat("stride")
    if folds:
        ctx.cat("late-fold")
    ctx.nontrivial = window > 1 or bool(stride) or folds is not None or nnan > 0
    H = hol(cal)
    # published table vs independent recomputation (transformer none)
    if tf is None:
        end = kw.get("end") or Yin.last_valid_index()
        end = min(end, Yin.last_valid_index())
        ref = Xin.reindex(Xin.index.union(Yin.index)).loc[:end].ffill().fillna(0.).clip(-clip, clip)
        pub = env.X
        ctx.check("C18:published-table", pub.index.isin(ref.index).all() and
                  np.array_equal(pub.values, ref.loc[pub.index].values), rows=len(pub))
    else:
        ctx.check("C18:published-table", bool((env.X.abs() <= clip).all().all()) and not env.X.isna().any().any(), rows=len(env.X))
    env.action_space.seed(ctx.np_seed)
    try:
        obs = env.reset()
    except Exception as ex:
        ctx.violation("C18:reset", error=repr(ex)[:300])
        return
    done = ep.reset_ended_episode(env)
    refuse_k = r.randint(0, 6) if (sd == 0 and (r.random() < 0.4 or lat)) else None
    k = 0
    last = None
    first = True
    first_now = None
    kept_obs = []
    while True:
        now = env.now()
        if first_now is None:
            first_now = now
        Xp = env.X.loc[:now]
        if first:
            ctx.check("C18:full-window", len(Xp) >= window, rows=len(Xp), window=window, now=now)
            first = False
        if len(Xp) < window:
            ctx.violation("C18:full-window", rows=len(Xp), window=window, now=now)
            return
        exp = Xp.iloc[-window:].values
        if stride:
            exp = exp[::-stride][::-1]
        ok = ctx.check("C18:observation", obs.shape == env.observation_space.shape and obs.shape == exp.shape and
                       np.array_equal(obs, exp), now=now, shape=obs.shape, want_shape=exp.shape, window=window, stride=stride)
        # an observation the caller KEPT (a rollout buffer, obs_prev of a transition) still says what it said when it was
        # served, after later steps
        for now_k, obs_k, exp_k in kept_obs:
            ok &= ctx.check("C18:kept-observation-unchanged", np.array_equal(obs_k, exp_k), served_at=now_k, looked_at=now,
                            window=window, stride=stride)
        kept_obs = (kept_obs + [(now, obs, np.array(exp, copy=True))])[-3:]
        ok &= ctx.check("C18:bounds", float(np.abs(obs).max()) <= 5 and obs in env.observation_space, max=float(np.abs(obs).max()))
        ok &= ctx.check("C18:step-date", now in env.Y.index and now in Yin.index and pd.Timestamp(now) not in H and
                        (last is None or now > last), now=now, last=last)
        last = now
        for c in env.Y.columns:
            y = Yin[str(c.symbol)].loc[now:now].dropna()
            if len(y):
                y = y.iloc[-1]
                lob = env.exchange[c]
                ok &= ctx.check("C18:quotes", lob.bid_price == y - y * SP / 2 and lob.ask_price == y + y * SP / 2,
                                contract=c.symbol, now=now, book=[lob.bid_price, lob.ask_price], price=y, spread=SP)
        if rate is not None:
            # fixings dated from the episode's first step on have certainly been delivered (older ones
            # only if the warm-up replay reaches them, which the property does not promise)
            rr = rate.loc[first_now:now] if first_now is not None else rate.iloc[0:0]
            if len(rr):
                ok &= ctx.check("C18:rate", env.exchange[env.broker.fees.interest_rate].mid_price == rr.iloc[-1],
                                now=now, book=env.exchange[env.broker.fees.interest_rate].mid_price, want=rr.iloc[-1])
        else:
            ctx.check("C18:rate", env.exchange[env.broker.fees.interest_rate].mid_price == 0.0)
        if not ok or done:
            break
        if k > n + 2:
            ctx.violation("C18:episode-bounded", steps=k)
            return
        if k == refuse_k:
            # a decision the environment refuses (weights beyond max_long), caught by the caller who then decides
            # properly for the same date: what is served afterwards is what it would have been anyway
            try:
                env.step(np.full(ny, 9.0))
            except ValueError:
                ctx.cat("decision-refused-then-resubmitted")
        try:
            obs, rw, done, info = env.step(env.action_space.sample() * 0.3)
        except ValueError:
            if any(math.isnan(env.exchange[c].mid_price) for c in env.Y.columns):
                # an asset has no quote yet (price NaN on the first dates under markov
                # reset, DESIGN 4.2-e): trading it is refused loudly (C13) - not C18's concern
                ctx.cat("step-refused-asset-unquoted")
                break
            raise
        k += 1
    ctx.cat("episode")
    ctx.notes["steps"] = k
    # a second episode on the same environment serves the same data again
    early = bool(folds) and "early" in folds
    try:
        obs = env.reset("early") if early else env.reset()
    except Exception as ex:
        if early:
            ctx.cat("early-fold-refused")
            return
        ctx.violation("C18:reset", error=repr(ex)[:300], episode=2)
        return
    if early:
        ctx.cat("earlier-fold-after-later-fold")
    done2 = ep.reset_ended_episode(env)
    for j in range(400 if early else 3):       # (the earlier fold is played to its end: its last dates are the later fold's warm-up)
        now = env.now()
        Xp = env.X.loc[:now]
        exp = Xp.iloc[-window:].values
        if stride:
            exp = exp[::-stride][::-1]
        ctx.check("C18:observation", obs.shape == exp.shape and np.array_equal(obs, exp), now=now, episode=2, step=j)
        for c in env.Y.columns:
            y = Yin[str(c.symbol)].loc[now:now].dropna()
            if len(y):
                y = y.iloc[-1]
                lob = env.exchange[c]
                ctx.check("C18:quotes", lob.bid_price == y - y * SP / 2 and lob.ask_price == y + y * SP / 2,
                          contract=c.symbol, now=now, episode=2)
        if done2:
            break
        try:
            obs, rw, done2, info = env.step(env.action_space.sample() * 0.3)
        except ValueError:
            break
    ctx.cat("second-episode")
