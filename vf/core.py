"""Case context, verdict bookkeeping, known findings, evidence and replay files."""
import collections
import hashlib
import json
import math
import os
import random
import traceback
from datetime import datetime, date, timedelta

import numpy as np

from vf import ROOT

KNOWN_FILE = os.path.join(ROOT, "KNOWN_FINDINGS.txt")


# --------------------------------------------------------------------------- #
# JSON helpers
# --------------------------------------------------------------------------- #
def jsonable(o, depth=0):
    """Best-effort conversion of a case description / witness into JSON."""
    if depth > 8:
        return repr(o)[:200]
    if o is None or isinstance(o, (bool, int, str)):
        return o
    if isinstance(o, float):
        if math.isnan(o):
            return "nan"
        if math.isinf(o):
            return "inf" if o > 0 else "-inf"
        return o
    if isinstance(o, (np.integer,)):
        return int(o)
    if isinstance(o, (np.floating,)):
        return jsonable(float(o))
    if isinstance(o, np.bool_):
        return bool(o)
    if isinstance(o, np.ndarray):
        return jsonable(o.tolist(), depth + 1)
    if isinstance(o, (datetime, date)):
        return o.isoformat()
    if isinstance(o, timedelta):
        return o.total_seconds()
    if isinstance(o, dict):
        return {str(k): jsonable(v, depth + 1) for k, v in o.items()}
    if isinstance(o, (list, tuple, set, frozenset)):
        return [jsonable(v, depth + 1) for v in o]
    return repr(o)[:300]


def digest(o) -> str:
    return hashlib.sha1(
        json.dumps(jsonable(o), sort_keys=True).encode()
    ).hexdigest()[:16]


def derive_seed(*parts) -> int:
    h = hashlib.sha256("/".join(str(p) for p in parts).encode()).digest()
    return int.from_bytes(h[:8], "big")


# --------------------------------------------------------------------------- #
# Known findings
# --------------------------------------------------------------------------- #
def load_known():
    """Returns {(property, key): text} for `known:` lines.  `fixed:` lines
    suppress nothing and are ignored here."""
    known = dict()
    try:
        with open(KNOWN_FILE) as f:
            for line in f:
                line = line.strip()
                if not line.startswith("known:"):
                    continue
                fields = line[len("known:"):].split(None, 2)
                prop = fields[0].split("=", 1)[1]
                key = fields[1].split("=", 1)[1]
                text = fields[2] if len(fields) > 2 else ""
                known[(prop, key)] = text
    except FileNotFoundError:
        pass
    return known


# --------------------------------------------------------------------------- #
# Case context
# --------------------------------------------------------------------------- #
class Inconclusive(Exception):
    """Raised by a case when it cannot decide (e.g. a step cap was exceeded
    in a property that does not judge episode length)."""


class Ctx:
    """Handed to every case.  Collects what the monitors observed."""

    def __init__(self, prop: str, seed: int, kind: str, index: int, tier: str):
        self.prop = prop
        self.seed = seed
        self.kind = kind  # 'rand' or 'sys'
        self.index = index
        self.tier = tier
        s = derive_seed(seed, prop, kind, index)
        self.rng = random.Random(s)
        self.nrng = np.random.default_rng(s % (2 ** 63))
        self.np_seed = s % (2 ** 32)
        self.cats = collections.Counter()
        self.evals = collections.Counter()
        self.violations = []
        self.findings = []  # (key, detail) candidates for KNOWN_FINDINGS
        self.nontrivial = False
        self.sample = None
        self.notes = dict()

    # -- recording ---------------------------------------------------------- #
    def cat(self, *names):
        for n in names:
            self.cats[n] += 1

    def check(self, clause: str, ok, **detail) -> bool:
        """One oracle evaluation.  Returns ok."""
        self.evals[clause] += 1
        if not ok:
            self.violations.append({"clause": clause, "detail": jsonable(detail)})
        return bool(ok)

    def violation(self, clause: str, **detail):
        self.evals[clause] += 1
        self.violations.append({"clause": clause, "detail": jsonable(detail)})

    def finding(self, key: str, **detail):
        """A violation whose mechanism matches a known-finding classifier.
        Whether it is suppressed is decided by the runner from the committed
        KNOWN_FINDINGS.txt - an unlisted key is reported as a VIOLATION."""
        self.evals["finding:" + key] += 1
        self.findings.append({"key": key, "detail": jsonable(detail)})

    def close(self, a, b, rel=1e-9, abs_=0.0, scale=None) -> bool:
        if isinstance(a, float) and isinstance(b, float):
            if math.isnan(a) or math.isnan(b):
                return math.isnan(a) and math.isnan(b)
        s = scale if scale is not None else max(1.0, abs(a), abs(b))
        return abs(a - b) <= rel * s + abs_


def run_one(mod, prop, seed, kind, index, tier):
    """Execute one case of property module `mod`; never raises."""
    from vf import monitor
    ctx = Ctx(prop, seed, kind, index, tier)
    monitor.reset_process_state(ctx.np_seed)
    try:
        if kind == "rand":
            mod.case(ctx, index, tier)
        else:
            mod.sys_case(ctx, index, tier)
    except Inconclusive as e:
        ctx.notes["inconclusive"] = str(e)
    except Exception:
        ctx.violation("unexpected-exception", traceback=traceback.format_exc()[-3000:])
    finally:
        monitor.deactivate_all()
    return ctx


class local_timezone:
    """Runs a block with the PROCESS in another local time zone (POSIX TZ rule string, no tz database needed):
    nothing in the package may depend on it - naive timestamps are compared and subtracted as they are."""

    def __init__(self, rule="EST5EDT,M3.2.0,M11.1.0"):
        self.rule = rule

    def __enter__(self):
        import os
        import time
        self.old = os.environ.get("TZ")
        os.environ["TZ"] = self.rule
        time.tzset()
        return self

    def __exit__(self, *a):
        import os
        import time
        if self.old is None:
            os.environ.pop("TZ", None)
        else:
            os.environ["TZ"] = self.old
        time.tzset()
        return False
