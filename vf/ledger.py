"""Independent shadow ledger: the C01 identity

    NLV = deposit + interest - commissions
          + sum_c mult_c * (pos_c * liq_c - sum qty * exec)

fed only by what the harness sent (quotes, trades) and by the interest amounts
the broker reported.  Also models the broker's documented epsilon snap
(DESIGN 4.2-a)."""
import math

EPS = 1e-7


class Ledger:
    def __init__(self, deposit, fees=None):
        self.deposit = float(deposit)
        self.fees = fees
        self.pos = dict()
        self.spent = dict()       # sum of qty * exec price per contract (no multiplier)
        self.gross = dict()       # sum of |qty * exec| per contract
        self.quotes = dict()      # contract -> (bid, ask)
        self.comm = 0.0
        self.interest = 0.0
        self.snaps = 0
        self.contracts = dict()   # symbol-keyed registry: contract -> contract

    def _reg(self, c):
        if c not in self.pos:
            self.pos[c] = 0.0
            self.spent[c] = 0.0
            self.gross[c] = 0.0

    def quote(self, c, bid, ask):
        self._reg(c)
        self.quotes[c] = (bid, ask)

    def drop_quote(self, c):
        self.quotes.pop(c, None)

    def liq(self, c):
        bid, ask = self.quotes.get(c, (math.nan, math.nan))
        p = self.pos.get(c, 0.0)
        if p > 0:
            return bid
        if p < 0:
            return ask
        return (bid + ask) / 2

    def exec_price(self, c, qty):
        bid, ask = self.quotes[c]
        return ask if qty > 0 else bid

    def commission(self, c, qty, px):
        return self.fees.fixed + self.fees.proportional * abs(qty * px * c.multiplier)

    def trade(self, c, qty, px=None, commission=None):
        """Apply a trade of `qty` executed at `px` (default: the ledger's own
        quote on the execution side)."""
        self._reg(c)
        if px is None:
            px = self.exec_price(c, qty)
        if commission is None:
            commission = self.commission(c, qty, px)
        before = self.pos[c]
        after = before + qty
        self.comm += commission
        self.gross[c] += abs(qty * px)
        if abs(after) < EPS and after != 0.0:
            self.snaps += 1
            if c.margin_requirement != 0:
                # margined: nothing was paid for the residual; the position is
                # zeroed and its margin swept back -> as if exactly closed.
                self.spent[c] += (-before) * px
            else:
                # spot: the cash for `qty` was paid/received; the residual
                # position (and its value) is dropped.
                self.spent[c] += qty * px
            after = 0.0
        else:
            self.spent[c] += qty * px
        self.pos[c] = after
        return commission

    def value(self, c):
        p = self.pos.get(c, 0.0)
        if p == 0.0:
            return -c.multiplier * self.spent.get(c, 0.0)
        return c.multiplier * (p * self.liq(c) - self.spent[c])

    def nlv(self):
        return (self.deposit + self.interest - self.comm
                + sum(self.value(c) for c in self.pos))

    def scale(self):
        s = abs(self.deposit) + abs(self.interest) + self.comm
        for c in self.pos:
            p = self.pos[c]
            s += c.multiplier * self.gross[c]
            if p != 0.0:
                s += abs(c.multiplier * p * self.liq(c))
        return s

    def margin(self, c):
        p = self.pos.get(c, 0.0)
        if p == 0.0 or c.margin_requirement == 0:
            return 0.0
        return c.margin_requirement * c.multiplier * abs(p) * self.liq(c)

    def weight(self, c, nlv=None):
        p = self.pos.get(c, 0.0)
        if p == 0.0:
            return 0.0
        return p * self.liq(c) * c.multiplier / (self.nlv() if nlv is None else nlv)
