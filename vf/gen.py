"""Seeded generators shared by the property modules."""
import math
from datetime import datetime, timedelta

from tradingenv.contracts import (
    AbstractContract, Asset, Cash, ETF, Stock, Index, Rate, ES, NK, VX, ZN, ZB, ZF, ZT, ZQ,
    FutureChain,
)
from tradingenv.exchange import Exchange
from tradingenv.events import EventNBBO
from tradingenv.broker.broker import Broker
from tradingenv.broker.fees import BrokerFees

NAN = float("nan")


# user-defined contracts (the properties quantify over them) ------------------ #
class SpotMult(Asset):
    """Spot-like (paid in full, no margin) with an arbitrary multiplier."""

    def __init__(self, symbol, multiplier):
        super().__init__(symbol)
        self._mult = float(multiplier)

    @property
    def multiplier(self):
        return self._mult


class UserFuture(AbstractContract):
    """Margined contract: nothing paid upfront, margin requirement in (0, 1]."""
    cash_requirement = 0.0

    def __init__(self, symbol, multiplier, margin_requirement):
        self._s = symbol
        self._m = float(multiplier)
        self._mr = float(margin_requirement)

    symbol = property(lambda s: s._s)
    multiplier = property(lambda s: s._m)
    margin_requirement = property(lambda s: s._mr)


class UserSpot(AbstractContract):
    """Spot-like (paid in full, no margin) defined directly on AbstractContract - not through Asset (the way the
    package itself defines Rate)."""
    cash_requirement = 1.0

    def __init__(self, symbol, multiplier):
        self._s = symbol
        self._m = float(multiplier)

    symbol = property(lambda s: s._s)
    multiplier = property(lambda s: s._m)
    margin_requirement = property(lambda s: 0.0)


class AssetFuture(Asset):
    """Margined contract (nothing paid upfront) that derives from Asset: what a contract IS follows from its
    cash / margin requirement, not from its base class."""
    cash_requirement = 0.0

    def __init__(self, symbol, multiplier, margin_requirement):
        super().__init__(symbol)
        self._m = float(multiplier)
        self._mr = float(margin_requirement)

    multiplier = property(lambda s: s._m)
    margin_requirement = property(lambda s: s._mr)


class Listing(AbstractContract):
    """A value-object contract with its OWN consistent equality and hash (ticker + venue, the way a frozen dataclass
    does it): it neither equals nor hashes like its symbol string."""
    cash_requirement = 1.0
    margin_requirement = 0.0

    def __init__(self, ticker, venue, multiplier=1.0):
        self.ticker = ticker
        self.venue = venue
        self._m = float(multiplier)

    symbol = property(lambda s: "%s@%s" % (s.ticker, s.venue))
    multiplier = property(lambda s: s._m)

    def __eq__(self, other):
        return isinstance(other, Listing) and (self.ticker, self.venue) == (other.ticker, other.venue)

    def __hash__(self):
        return hash((self.ticker, self.venue, "listing"))


def contract_pool(rng):
    """A shuffled mix of built-in and user-defined contracts."""
    pool = [
        ETF("A"), Stock("B"), Index("I"),
        SpotMult("L10", 10.0), SpotMult("M01", 0.1), SpotMult("S25", 2.5), SpotMult("H100", 100.0),
        ES(2019, 6), ZN(2019, 9), NK(2019, 12), ZQ(2019, 9),
        UserFuture("F1", rng.choice([1, 5, 250]), rng.choice([0.01, 0.3, 1.0])),
        UserFuture("F2", 2.5, 0.5),
        UserSpot("U3", rng.choice([1.0, 3.0, 0.5])), Listing("VOD", rng.choice(["LSE", "XETRA"]), rng.choice([1.0, 2.0])), AssetFuture("AF", rng.choice([1, 20]), rng.choice([0.05, 0.4])),
    ]
    rng.shuffle(pool)
    return pool


def describe_contract(c):
    return {
        "symbol": c.symbol, "cls": type(c).__name__, "mult": float(c.multiplier),
        "margin": float(c.margin_requirement), "cash_req": float(c.cash_requirement),
    }


def new_exchange(t, fees, rate=0.0):
    ex = Exchange()
    ex.process_EventNBBO(EventNBBO(t, Cash(), 1.0, 1.0))
    ex.process_EventNBBO(EventNBBO(t, fees.interest_rate, rate, rate))
    return ex


def is_margined(c):
    return c.margin_requirement != 0


def liq_side(pos, bid, ask):
    if pos > 0:
        return bid
    if pos < 0:
        return ask
    return (ask + bid) / 2
