"""Runtime-monitoring framework for tradingenv (see /verif/DESIGN.md)."""
import os
import sys

REPO = os.environ.get("VERIF_REPO", "/repo")
if REPO not in sys.path[:1]:
    # The working tree under test shadows the editable install in /venv.
    sys.path.insert(0, REPO)

ROOT = os.path.dirname(os.path.dirname(os.path.abspath(__file__)))
GUARD = "TRADINGENV_VERIF"


def hooks_enabled() -> bool:
    return os.environ.get(GUARD, "") == "1"
