"""Runs one function of a property module ALONE, in a fresh interpreter.

The reference for every 'gives the same result as it would alone / regardless of what else
lives in the process' clause: the busy check process has built hundreds of environments
before the case at hand, the fresh interpreter none.  Arguments and result travel as pickles
through ROOT/.work (never /tmp); both files are removed afterwards.

    result = alone.call("c10", "alone_episode", spec, fold)
"""
import os
import pickle
import subprocess
import sys

from vf import ROOT, core

_N = [0]


def call(module, func, *args, timeout=600, env=None):
    work = os.path.join(ROOT, ".work")
    os.makedirs(work, exist_ok=True)
    _N[0] += 1
    base = os.path.join(work, "alone-{}-{}".format(os.getpid(), _N[0]))
    fin, fout = base + ".in", base + ".out"
    try:
        with open(fin, "wb") as f:
            pickle.dump(args, f)
        try:
            p = subprocess.run([sys.executable, "-B", "-m", "vf.alone", module, func, fin, fout], cwd=ROOT,
                               capture_output=True, text=True, timeout=timeout,
                               env=(dict(os.environ, **env) if env else None))
        except subprocess.TimeoutExpired:
            raise core.Inconclusive("fresh-interpreter run of {}.{} hit the {} s watchdog".format(module, func, timeout))
        if p.returncode != 0 or not os.path.exists(fout):
            raise core.Inconclusive("fresh-interpreter run of {}.{} failed: {}".format(module, func, (p.stderr or "")[-400:]))
        with open(fout, "rb") as f:
            return pickle.load(f)
    finally:
        for x in (fin, fout):
            try:
                os.remove(x)
            except OSError:
                pass


def main(argv):
    module, func, fin, fout = argv
    import importlib
    mod = importlib.import_module("vf.props." + module)
    with open(fin, "rb") as f:
        args = pickle.load(f)
    res = getattr(mod, func)(*args)
    with open(fout, "wb") as f:
        pickle.dump(res, f)
    return 0


if __name__ == "__main__":
    sys.exit(main(sys.argv[1:]))
