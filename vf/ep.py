"""Episode engine (EP): real TradingEnv + Transmitter with a recording observer
(registered as the environment's state) and markers written by the hooks on
Broker.rebalance / Broker.transact into the same append-only log."""
import math
from datetime import datetime, timedelta

import numpy as np

from tradingenv.events import IEvent, EventNBBO
from tradingenv.state import IState
from tradingenv.features import Feature
from tradingenv.contracts import AbstractContract
from tradingenv.broker.broker import EndOfEpisodeError

from vf import monitor


class EvA(IEvent):
    def __init__(self, time, uid, v=0.0):
        self.time = time
        self.uid = uid
        self.v = v


class EvB(IEvent):
    def __init__(self, time, uid, v=0.0):
        self.time = time
        self.uid = uid
        self.v = v


class EvC(IEvent):
    def __init__(self, time, uid, v=0.0):
        self.time = time
        self.uid = uid
        self.v = v


class Sink:
    """Append-only log shared by the observers and hooks of ONE environment."""

    def __init__(self):
        self.log = []
        self.exchange_log = []   # uids of the quotes the environment's exchange processed
        self.env = None

    def now(self):
        return self.env.now() if self.env is not None else None


class Rec(IState):
    """Recording observer subscribed to every event type used by the harness.
    Registered as the environment's `state` (no observation space: the
    environment then returns the state object itself as observation)."""

    def __init__(self, sink: Sink = None, features=None):
        self.sink = sink
        super().__init__(features, save=False)

    def _m(self, kind, event):
        s = self.sink
        s.log.append((kind, getattr(event, "uid", None), event.time, s.now(), AbstractContract.now, event))

    def process_EventNBBO(self, event):
        self._m("M", event)

    def process_EvA(self, event):
        self._m("M", event)

    def process_EvB(self, event):
        self._m("M", event)

    def process_EvC(self, event):
        self._m("M", event)

    def process_EventContractDiscontinued(self, event):
        self._m("X", event)

    def process_EventNewObservation(self, event):
        self._m("M", event)

    def process_EventNewDate(self, event):
        self._m("NewDate", event)

    def process_EventStep(self, event):
        self._m("Step", event)

    def process_EventReset(self, event):
        self._m("Reset", event)

    def process_EventDone(self, event):
        self._m("Done", event)


class RecAB(Feature):
    """Second observer (registered as a Feature of the state) with a narrower
    subscription: EvA and EvB only."""

    def __init__(self, sink: Sink = None):
        self.sink = sink
        super().__init__(name="RecAB", save=False)

    def process_EvA(self, event):
        self.sink.log.append(("M", event.uid, event.time))

    def process_EvB(self, event):
        self.sink.log.append(("M", event.uid, event.time))


class EpMonitor(monitor.Recorder):
    """Writes REB / REBEND / TX markers into the sink of the environment whose
    broker is being called, and counts transacts."""

    def __init__(self, *sinks):
        super().__init__()
        self.sinks = list(sinks)
        self.n_transact = 0
        self.n_rebalance = 0
        self.rebalance_exc = []

    def _sink(self, broker):
        for s in self.sinks:
            if s.env is not None and s.env.broker is broker:
                return s
        return None

    def pre_Broker_rebalance(self, b, a, k):
        self.n_rebalance += 1
        s = self._sink(b)
        r = a[0] if a else k["rebalancing"]
        if s is not None:
            s.log.append(("REB", None, r.time, s.now(), AbstractContract.now, r))

    def post_Broker_rebalance(self, b, a, k, tok, res, exc):
        s = self._sink(b)
        self.rebalance_exc.append(exc)
        if s is not None:
            s.log.append(("REBEND", None, None, None, None, exc))

    def pre_Exchange_process_EventNBBO(self, ex, a, k):
        e = a[0] if a else k["event"]
        for s in self.sinks:
            if s.env is not None and s.env.exchange is ex:
                s.exchange_log.append(getattr(e, "uid", None))

    def pre_Broker_transact(self, b, a, k):
        self.n_transact += 1
        s = self._sink(b)
        if s is not None:
            tr = a[0] if a else k["trade"]
            s.log.append(("TX", None, tr.time, None, None, tr))


def run_episode(env, actions, fold=None, cap=None, on_step=None):
    """reset + step until done.  `actions` is a list or a callable k -> action.
    Returns (obs0, outs) with outs = [(obs, reward, done, info)].  Raises
    RuntimeError when the episode exceeds `cap` steps."""
    obs0 = env.reset(fold) if fold is not None else env.reset()
    outs = []
    k = 0
    done = done_at_reset(env)
    while not done:
        if cap is not None and k >= cap:
            raise RuntimeError("episode exceeded its step cap {}".format(cap))
        a = actions(k) if callable(actions) else actions[k]
        out = env.step(a)
        outs.append(out)
        if on_step:
            on_step(k, out)
        done = out[2]
        k += 1
    return obs0, outs


def done_at_reset(env, sink=None):
    """reset() can already end the episode (fold with a single event-bearing
    timestep): EventDone is then delivered during reset (DESIGN 4.2-f)."""
    if sink is None:
        st = getattr(env, "state", None)
        sink = getattr(st, "sink", None)
    if sink is not None:
        for x in reversed(sink.log):
            if x[0] == "Done":
                return True
            if x[0] == "Reset":
                return False
        return False
    return reset_ended_episode(env)


def reset_ended_episode(env):
    """True when the episode is already over right after reset() (a fold with a single event-bearing
    timestep).  The environment's own flag is private: it is read while it exists under its present name;
    otherwise the question is put to a deep copy of the environment through the public interface (a step on
    an ended episode raises EndOfEpisodeError), with the process-wide contract clock restored afterwards."""
    if hasattr(env, "_done"):
        return bool(env._done)
    import copy
    clock = AbstractContract.now
    try:
        probe = copy.deepcopy(env)
        probe.step(probe.action_space.null_action())
        return False
    except EndOfEpisodeError:
        return True
    except Exception:
        return False
    finally:
        AbstractContract.now = clock


def odigest(o):
    """Canonical digest of an observation."""
    if isinstance(o, dict):
        return tuple((k, odigest(v)) for k, v in sorted(o.items()))
    if isinstance(o, np.ndarray):
        return (o.shape, o.dtype.str, o.tobytes())
    if isinstance(o, float):
        return o.hex()
    if isinstance(o, (int, str, type(None))):
        return o
    return type(o).__name__
