"""Episode + ledger replay (engine EP): serves C07 (track record and rewards),
C08 (FIFO delay and latency pricing) and the episode variant of C01."""
import math
import os
from datetime import datetime, timedelta
from decimal import Decimal, getcontext

import numpy as np

from tradingenv.env import TradingEnv
from tradingenv.contracts import ETF, Stock, ES, ZN, NK, VX, Rate, Cash, FutureChain, AbstractContract
from tradingenv.spaces import BoxPortfolio, DiscretePortfolio
from tradingenv.transmitter import Transmitter
from tradingenv.events import EventNBBO, IEvent
from tradingenv.features import Feature
from tradingenv.broker.fees import BrokerFees
from tradingenv.broker.broker import EndOfEpisodeError
from tradingenv.rewards import RewardPnL, RewardLogReturn, LogReturn, RewardSimpleReturn

from vf import ep, gen, monitor
from vf.ledger import Ledger

getcontext().prec = 50
YEAR = 365 * 24 * 3600
REL = 1e-9


class Mon(ep.EpMonitor):
    """EpMonitor that also snapshots (non-mutating views only) the cash balance
    just before each rebalance: the balance interest is computed on."""

    def pre_Broker_rebalance(self, b, a, k):
        s = self._sink(b)
        if s is not None:
            s.log.append(("CASH", None, None, None, None, b.holdings_quantity.get(b.base_currency, 0.0)))
        super().pre_Broker_rebalance(b, a, k)


def build(ctx, chain=False, discrete=False):
    rng = ctx.rng
    rate = Rate("R")
    fees = BrokerFees(markup=rng.choice([0, 0.002]), interest_rate=rate,
                      proportional=rng.choice([0, 1e-4, 2e-3]), fixed=rng.choice([0, 0, 0.01]))
    evs = []
    if chain:
        fcls = rng.choice([ES, NK, ZN, VX])
        AbstractContract.now = datetime.min
        ch = FutureChain(fcls, "2016-01", "2018-12")
        etf = ETF("A")
        start = datetime(2016, 2, 1) + timedelta(days=rng.randint(0, 100))
        n = rng.randint(40, 120)
        stepd = 1 if fcls is VX else rng.choice([1, 3, 5])
        grid = [start + timedelta(days=k * stepd) for k in range(n)]
        gap = stepd * 86400
        for c in ch.contracts:
            p = rng.uniform(10, 3000)
            for t in grid:
                if c.expiry - timedelta(days=400) < t < c.expiry:
                    p *= math.exp(rng.gauss(0, 0.006))
                    sp = rng.choice([0, 2e-4])
                    evs.append(EventNBBO(t, c, p * (1 - sp / 2), p * (1 + sp / 2)))
        p = 50.0
        for t in grid:
            p *= math.exp(rng.gauss(0, 0.01))
            evs.append(EventNBBO(t, etf, p, p * 1.0005))
        cs = [ch, etf]
        L, d = 0, rng.choice([0, 0, 1])
        cash0 = 1e7
        userate = False
        hole = None
        nrc = False
        zero_bar = None
    else:
        pool = [ETF("A"), ETF("B"), gen.SpotMult("L10", 10.0), ES(2021, 3), ZN(2021, 3), gen.UserFuture("F1", 5, 0.3), gen.UserSpot("U3", 3.0), gen.AssetFuture("AF", 20, 0.2)]
        rng.shuffle(pool)
        cs = pool[: rng.randint(1, 3)]
        n = rng.randint(3, 12)
        gap = rng.choice([60, 3600, 86400])
        t0 = datetime(2020, 6, 1, 12)
        grid = [t0 + timedelta(seconds=gap * k) for k in range(n)]
        L = rng.choice([0, 0, 5, 30, 0.2, 0.7, 59.9])      # incl. fractional, non-dyadic latencies
        L = L if L < gap else 0
        d = rng.choice([0, 0, 1, 2, 3])
        px = {c: rng.choice([5.0, 50.0, 3000.0]) for c in cs}

        def q(t, c):
            px[c] *= math.exp(rng.gauss(0, 0.01))
            sp = rng.choice([0, 1e-4, 5e-3])
            evs.append(EventNBBO(t, c, px[c] * (1 - sp / 2), px[c] * (1 + sp / 2)))

        # positions given in NUMBER OF CONTRACTS (not weights); only then can a bar quote a margined contract at
        # exactly 0.0 (calendar spreads do trade at zero; a weight target cannot be sized at a zero price)
        nrc = (not discrete) and rng.random() < 0.2
        zero_bar = None
        if nrc and n >= 4 and any(gen.is_margined(c) for c in cs) and rng.random() < 0.6:
            zero_bar = (rng.randint(1, n - 2), rng.choice([c for c in cs if gen.is_margined(c)]))
        userate = rng.random() < 0.6
        # a sparse stream: one timestep has no bar of its own - all it bears is a tick stamped within the latency
        # after the previous timestep (so it lives in the latent partition only); the next one starts with a tick
        # as well (two decisions may not share a stamp, DESIGN 4.2-c)
        hole = rng.randint(1, n - 2) if (L >= 5 and n >= 5 and rng.random() < 0.4 and zero_bar is None) else None
        for k, t in enumerate(grid):
            if k != hole:
                for c in cs:
                    if zero_bar == (k, c):
                        evs.append(EventNBBO(t, c, 0.0, 0.0))
                        continue
                    q(t, c)
                if userate:
                    r_ = rng.choice([0, 0.01, 0.05, -0.005])
                    evs.append(EventNBBO(t, rate, r_, r_))
            if hole is not None and k in (hole - 1, hole):
                q(t + timedelta(seconds=L / 2), rng.choice(cs))
            if k < n - 1:
                for off in [L - 1e-3, L, L + 1e-3, gap / 2]:
                    if 0 < off < gap and rng.random() < 0.5 and not (k + 1 == hole and off > L):
                        q(t + timedelta(seconds=off), rng.choice(cs))
        cash0 = rng.choice([100, 1e4, 1e6])
    rng.shuffle(evs)
    i0 = 0
    folds = None
    if not chain and n > 4 and hole is not None and rng.random() < 0.6:
        i0 = hole                       # the episode starts AT the bar-less timestep
        folds = {"training-set": [grid[i0], grid[-1]]}
        ctx.cat("fold-starts-at-latent-only-timestep")
    elif not chain and rng.random() < 0.3 and n > 4:
        i0 = rng.randint(1, n - 3)
        folds = {"training-set": [grid[i0], grid[-1]]}
    tr = Transmitter(grid, folds)
    tr.add_events(evs)
    rw = rng.choice([RewardPnL(), RewardLogReturn(), LogReturn(scale=0.01, clip=2., risk_aversion=0.1), RewardSimpleReturn()])
    if discrete:
        m = rng.randint(3, 7)
        allocs = [[rng.choice([0, rng.uniform(-0.4, 0.5)]) for _ in cs] for _ in range(m)]
        if rng.random() < 0.5:
            allocs[0] = [0.0] * len(cs)
        space = DiscretePortfolio(cs, allocs)
        start = 0
        if rng.random() < 0.3:
            # a user-defined discrete space whose actions are SIGNALS counted from a negative number (-1 short, 0 flat,
            # +1 long ...): action 0 - the null action of the delay queue - is then not the first row of the table
            start = -rng.randint(1, m - 1)
            space = SignalPortfolio(cs, allocs, start)
            ctx.cat("discrete-space-counted-from-nonzero-start")
    else:
        allocs = None
        start = 0
        if nrc:
            # (one more contract is listed in the space but never quoted: a leg in it cannot be traded)
            space = BoxPortfolio(cs + [ETF("GHOST")], -1e9, 1e9, as_weights=False)
        else:
            space = BoxPortfolio(cs, -1.5, 1.5, margin=(rng.choice([0, 0.02]) if chain else 0.0))
    sink = ep.Sink()
    state = ep.Rec(sink)
    if rng.random() < 0.3:
        # a user feature that looks at the live account from inside its event callback (a drawdown / exposure feature):
        # the account is valued in the middle of a bar, between two quotes that carry the same timestamp
        state = ep.Rec(sink, features=[AccountWatcher(sink, rng.choice(["nlv", "weights", "context", "mark"]))])
        ctx.cat("account-valued-inside-event-callbacks")
    env = TradingEnv(action_space=space, transmitter=tr, state=state, reward=rw, latency=L, steps_delay=d,
                     broker_fees=fees, initial_cash=cash0)
    sink.env = env
    cfg = dict(start=start, transmitter=tr, cs=cs, grid=grid, L=L, d=d, fees=fees, rate=rate, evs=evs, rw=rw, cash0=cash0, i0=i0, allocs=allocs,
               chain=chain, userate=userate, gap=gap, discrete=discrete, nrc=nrc, zero_bar=zero_bar,
               px0={c: (e_.bid_price + e_.ask_price) / 2 for c in cs if not isinstance(c, FutureChain)
                    for e_ in [next(x for x in evs if isinstance(x, EventNBBO) and x.contract == c and x.bid_price > 0)]} if nrc else None)
    return env, sink, cfg


class AccountWatcher(Feature):
    """A user feature that reads the live account whenever a quote arrives."""

    def __init__(self, sink=None, how="nlv"):
        self.sink = sink
        self.how = how
        self.seen = 0
        super().__init__(name="AccountWatcher", save=False)

    def process_EventNBBO(self, event):
        b = self.sink.env.broker
        try:
            if self.how == "nlv":
                b.net_liquidation_value(raise_if_broke=False)
            elif self.how == "weights":
                b.holdings_weights()
            elif self.how == "context":
                b.context()
            else:
                b.marking_to_market()
            self.seen += 1
        except Exception:
            pass          # (insolvent, or a held contract without quote: the feature shrugs)


class SignalPortfolio(DiscretePortfolio):
    """A user-defined discrete space: the same allocation table, the actions counted from `start` (a negative number)
    instead of 0 - e.g. -1 short / 0 flat / +1 long."""

    def __init__(self, contracts, allocations, start):
        from gymnasium.spaces import Discrete
        super().__init__(contracts, allocations)
        Discrete.__init__(self, n=len(allocations), start=start)

    def _make_allocation(self, action, broker=None):
        return self._allocations[int(action) - int(self.start)]


class _Note(IEvent):
    """An event that nothing in the environment observes."""

    def __init__(self, time):
        self.time = time


def rebuild_with_latency(ctx, cfg, env):
    """A NEW TradingEnv on the SAME Transmitter (data loaded once, environment rebuilt)
    with a different latency: the latent / non-latent split must follow the new latency."""
    rng = ctx.rng
    gap = cfg["gap"]
    choices = [x for x in (0, 5, 30, 0.7) if x < gap and x != cfg["L"]]
    if not choices:
        return None
    L2 = rng.choice(choices)
    sink = ep.Sink()
    env2 = TradingEnv(action_space=env.action_space, transmitter=cfg["transmitter"],
                      state=ep.Rec(sink), reward=cfg["rw"], latency=L2, steps_delay=cfg["d"], broker_fees=cfg["fees"],
                      initial_cash=cfg["cash0"])
    sink.env = env2
    cfg2 = dict(cfg, L=L2)
    return env2, sink, cfg2


def interest_ref(cash, rate, markup, secs):
    sign = 1 if cash > 0 else -1 if cash < 0 else 0
    c = Decimal(rate) - Decimal(markup) * sign
    out = Decimal(cash) * ((1 + c) ** (Decimal(secs) / Decimal(YEAR)) - 1)
    if cash > 0 and out < 0:
        out = Decimal(0)
    return float(out)


def ledger_episode(ctx, props, chain=False, discrete=False, prebuilt=None):
    """One episode + replay.  With `prebuilt=(env, sink, cfg)` a further episode
    is run on the SAME environment object (repeated episodes)."""
    rng = ctx.rng
    env, sink, cfg = prebuilt if prebuilt is not None else build(ctx, chain, discrete)
    chain, discrete = cfg["chain"], cfg["discrete"]
    if prebuilt is None and "C08" in props and cfg["evs"] and rng.random() < 0.3:
        # more events are handed to the transmitter AFTER the environment was built (nobody observes this kind,
        # it is stamped where quotes already are): the latent / non-latent split of the environment's latency
        # must survive it
        cfg["transmitter"].add_events([_Note(rng.choice(cfg["evs"]).time) for _ in range(rng.randint(0, 2))])
        ctx.cat("events-added-after-environment-built")
    del sink.log[:]
    cs, grid, L, d, fees, rate = cfg["cs"], cfg["grid"], cfg["L"], cfg["d"], cfg["fees"], cfg["rate"]
    rw, cash0, evs = cfg["rw"], cfg["cash0"], cfg["evs"]
    steps = grid[cfg["i0"]:]
    acts, outs = [], []
    reuse_buffer = rng.random() < 0.25
    buf = None
    import pandas as _pd
    bk = rng.choice(["ndarray", "ndarray", "list", "series"])
    buf_kind = {"ndarray": lambda x: x, "list": lambda x: list(x), "series": lambda x: _pd.Series(x)}[bk]
    if reuse_buffer and not discrete:
        ctx.cat("action-buffer-kind:" + bk)
    fork_at = rng.randint(1, 4) if rng.random() < 0.2 else None
    refuse_at = rng.randint(0, 3) if (not discrete and not chain and rng.random() < 0.3) else None
    bad_due_call = None        # with a delay, a malformed action is refused when it becomes DUE, d calls later
    calls = 0
    if reuse_buffer and not discrete:
        ctx.cat("action-buffer-reused-in-place")
    with Mon(sink) as mon:
        env.reset()
        done = ep.done_at_reset(env, sink)
        k = 0
        while not done:
            if k > len(grid) + 2:
                raise RuntimeError("episode exceeded its step cap")
            if discrete:
                a = rng.randrange(len(cfg["allocs"])) + cfg["start"]
                if k % 3 == 1:
                    a = np.int64(a)            # what np.argmax returns
            elif chain:
                a = np.array([rng.choice([0, rng.uniform(-1.5, 1.5)]), rng.uniform(-0.3, 0.5)])
            else:
                # unique per step: the step index is encoded in the weights
                a = np.array([rng.choice([0.0, rng.uniform(-0.4, 0.5)]) for _ in cs])
                a = np.where(a != 0, a + 1e-6 * (k + 1), a)
                if cfg.get("nrc"):
                    # numbers of contracts, sized like the weights above at the first quotes (nothing in the ghost)
                    a = np.array([w * cash0 / (cfg["px0"][c] * c.multiplier) for w, c in zip(a, cs)] + [0.0])
                if rng.random() < 0.12 and not cfg.get("nrc"):
                    # a target so small that the trade it asks for is below 1e-7 contracts (the broker's own
                    # tolerance for positions): it is still a trade - executed, charged, recorded
                    a[rng.randrange(len(cs))] = rng.choice([-1, 1]) * rng.uniform(1e-10, 1e-8)
                    ctx.cat("target-asks-for-dust-trade")
            acts.append(a)
            mark = len(sink.log)
            submitting_bad = False
            if refuse_at == k and d >= 1 and not cfg.get("nrc") and bad_due_call is None:
                # with an execution delay, an out-of-bounds action sits in the queue for d calls and is refused when
                # it becomes due: that call raises (nothing is executed, the clock does not move), the caller goes on
                acts.pop()
                a = np.array(a, dtype=float) + 10.0
                bad_due_call = calls + d
                refuse_at = None
                submitting_bad = True
                ctx.cat("delayed-decision-refused-when-due")
            elif refuse_at == k and d >= 1:
                refuse_at = None
            if refuse_at == k:
                # a decision the environment REFUSES (out of the declared bounds; or, with positions in numbers of
                # contracts, a multi-leg decision whose last leg is in a contract without quote): it raises, the
                # caller catches it and submits a proper decision for the same timestep - nothing of the refused
                # one may have happened, and the episode goes on as if it had never been submitted
                bad = np.array(a, dtype=float)
                if cfg.get("nrc"):
                    bad[-1] = rng.choice([-2.0, 3.0])
                    if not np.any(bad[:-1]):
                        bad[0] = 1.0
                else:
                    bad = bad + 10.0
                h0_, n0_, tx0_ = env.broker.holdings_quantity, len(env.broker.track_record), mon.n_transact
                try:
                    env.step(bad)
                    refused = False
                except EndOfEpisodeError:
                    refused = None
                except Exception:
                    refused = True
                if refused and rng.random() < 0.4:
                    # a retry loop: the same refused decision is submitted again, once or twice, at the same instant
                    for _r in range(rng.choice([1, 2])):
                        try:
                            env.step(bad)
                            refused = False
                        except EndOfEpisodeError:
                            refused = None
                            break
                        except Exception:
                            pass
                    ctx.cat("decision-refused-several-times-in-a-row")
                if refused is not None:
                    pfx = "C08" if "C08" in props else "C07" if "C07" in props else "C01"
                    noncash = lambda h_: {c_: q_ for c_, q_ in h_.items() if not isinstance(c_, Cash)}
                    # (cash may have moved by the interest of the elapsed period, which C13 allows; the positions not)
                    ctx.check(pfx + ":refused-decision-leaves-no-trace", refused and noncash(env.broker.holdings_quantity) == noncash(h0_) and
                              len(env.broker.track_record) == n0_ and mon.n_transact == tx0_, raised=refused,
                              transacts=mon.n_transact - tx0_, records=len(env.broker.track_record) - n0_, nrc=bool(cfg.get("nrc")))
                # what the refused attempt wrote into the log is market data (kept) and the markers of a rebalance that
                # did not happen (dropped, except the cash balance before the interest of the period was credited)
                kept, seen_cash = [], False
                for x_ in sink.log[mark:]:
                    if x_[0] == "CASH" and not seen_cash:
                        seen_cash = True
                        kept.append(("CASH-FIRST",) + tuple(x_[1:]))
                    elif x_[0] not in ("REB", "REBEND", "TX", "CASH"):
                        kept.append(x_)
                n_reb_refused = sum(1 for x_ in sink.log[mark:] if x_[0] == "REB")
                sink.log[mark:] = kept
                mon.n_rebalance -= n_reb_refused
                ctx.cat("decision-refused-then-resubmitted")
            if reuse_buffer and not discrete:
                # the caller keeps ONE array for its actions and overwrites it in place for every decision (a
                # pre-allocated action buffer): what was submitted is the content at submission time
                if buf is None:
                    # (the buffer may be a numpy array, a plain list or a pandas Series: all are accepted as actions)
                    buf = buf_kind(np.array(a, dtype=float))
                buf[:] = list(np.array(a, dtype=float)) if isinstance(buf, list) else np.array(a, dtype=float)
                if not submitting_bad:
                    acts[-1] = np.array(a, dtype=float)
                a = buf
            if fork_at == k and not done:
                # a what-if fork: the running environment is deep-copied (or pickled and restored), the copy is
                # stepped ahead with other actions and thrown away; the original then carries on as if nothing
                # had happened
                import copy
                import pickle
                counters = (mon.n_rebalance, mon.n_transact)
                try:
                    fork = copy.deepcopy(env) if rng.random() < 0.6 else pickle.loads(pickle.dumps(env))
                    for _j in range(rng.randint(1, 3)):
                        fa = rng.randrange(len(cfg["allocs"])) + cfg["start"] if discrete else np.array(a, dtype=float) * rng.choice([-1.0, 0.5, 0.0])
                        if fork.step(fa)[2]:
                            break
                    ctx.cat("forked-mid-episode")
                except (EndOfEpisodeError, ValueError):
                    # (the fork ends, or refuses a malformed action that was waiting in its copy of the delay queue)
                    ctx.cat("forked-mid-episode")
                finally:
                    AbstractContract.now = env.now() if env.now() is not None else AbstractContract.now
                    mon.n_rebalance, mon.n_transact = counters      # (the fork's calls are not this episode's)
            calls += 1
            if bad_due_call is not None and calls - 1 == bad_due_call:
                h0_, n0_, tx0_ = env.broker.holdings_quantity, len(env.broker.track_record), mon.n_transact
                try:
                    env.step(a)
                    refused = False
                except EndOfEpisodeError:
                    break
                except Exception:
                    refused = True
                pfx = "C08" if "C08" in props else "C07" if "C07" in props else "C01"
                # (cash may have moved - interest, or variation margin settled by a valuation that a user feature asked
                # for when the latent quotes of this call arrived; the positions may not)
                noncash = lambda h_: {c_: q_ for c_, q_ in h_.items() if not isinstance(c_, Cash)}
                ctx.check(pfx + ":refused-decision-leaves-no-trace", refused and noncash(env.broker.holdings_quantity) == noncash(h0_) and
                          len(env.broker.track_record) == n0_ and mon.n_transact == tx0_, raised=refused, delayed=True,
                          transacts=mon.n_transact - tx0_, records=len(env.broker.track_record) - n0_)
                bad_due_call = -1
                if not refused:
                    break
                continue        # (this call's own action is queued; the same timestep is decided again)
            try:
                o, r, done, info = env.step(a)
            except EndOfEpisodeError:
                # known finding K1 (C09's business): the step's own market events ruined the account and the
                # reward computation lets the error escape.  The decision was executed and recorded; the episode
                # is over.
                ctx.cat("episode-ended-by-K1-escape")
                break
            outs.append((r, info, mark, len(sink.log)))
            k += 1
            if "C07" in props and rng.random() < 0.25 and len(env.broker.track_record):
                # the record is read while it is still being filled (progress report): what it says now is the
                # decisions so far, and reading it must not change what it says at the end of the episode
                tr_ = env.broker.track_record
                mid = tr_.net_liquidation_value()
                mid2 = tr_.net_liquidation_value(before_rebalancing=False)
                midc = tr_.transaction_costs(cumulative=False)
                midw = tr_.weights_actual()
                ctx.check("C07:record-read-mid-episode", len(mid) == len(mid2) == len(midc) == len(midw) == len(tr_) and
                          float(mid.iloc[-1, 0]) == float(tr_[-1].context_pre.nlv) and
                          float(mid2.iloc[-1, 0]) == float(tr_[-1].context_post.nlv),
                          entries=len(tr_), rows=[len(mid), len(mid2), len(midc), len(midw)])
                ctx.cat("record-read-mid-episode")
    trk = env.broker.track_record
    C07, C08, C01 = "C07" in props, "C08" in props, "C01" in props
    if C07:
        # (a malformed action still waiting in the delay queue when the data ended was submitted but never came due)
        n_dec = len(acts) + (1 if bad_due_call not in (None, -1) else 0)
        ctx.check("C07:one-entry-per-decision", len(trk) == n_dec == mon.n_rebalance, entries=len(trk), decisions=n_dec)
    led = Ledger(cash0, fees)
    cur_rate = 0.0
    last_m = None
    k = -1
    times = []
    prev_pre = None
    last_reb_time = None
    cash_snap = None
    cash_first = None
    step_end = {m1: (r, j) for j, (r, info, m0, m1) in enumerate(outs)}
    simple_prod = 1.0
    nlv_end = None

    def alloc_denoted(a):
        if a is None:
            vals = cfg["allocs"][0 - cfg["start"]] if discrete else [0.0] * len(cs)      # (action 0)
        elif discrete:
            vals = cfg["allocs"][int(a) - cfg["start"]]
        else:
            vals = list(a)
        return vals

    log = sink.log
    for idx in range(len(log) + 1):
        if idx in step_end and k >= 0:
            r, j = step_end[idx]
            now = led.nlv()
            nlv_end = now
            p = prev_pre
            if isinstance(rw, RewardPnL):
                v = now - p
            elif isinstance(rw, RewardLogReturn):
                v = math.log(now / p)
            elif isinstance(rw, RewardSimpleReturn):
                v = now / p - 1
                simple_prod *= (1 + r)
            else:
                v = math.log(now / p) / rw.scale
                v = max(-rw.clip, min(rw.clip, v))
                v = v * (1 + rw.risk_aversion) if v < 0 else v
            if C07:
                tol_n = REL * led.scale()
                if isinstance(rw, RewardPnL):
                    tol = 1e-9 * max(1.0, abs(v)) + 2 * tol_n
                else:
                    tol = 1e-9 * max(1.0, abs(v)) + 4 * tol_n / abs(p) / (rw.scale if isinstance(rw, LogReturn) else 1.0)
                ctx.check("C07:reward", abs(v - r) <= tol, reward=r, want=v, kind=type(rw).__name__, step=j)
        if idx == len(log):
            break
        x = log[idx]
        kind = x[0]
        if kind == "M":
            e = x[5]
            if isinstance(e, EventNBBO):
                if e.contract == rate:
                    cur_rate = e.bid_price
                else:
                    led.quote(e.contract, e.bid_price, e.ask_price)
            last_m = x[2]
        elif kind == "X":
            c = x[5].contract
            if C07 or "C11" in props:
                ctx.check("C11:not-held-at-expiry", led.pos.get(c, 0.0) == 0.0, contract=c.symbol, pos=led.pos.get(c, 0.0))
            led.drop_quote(c)
            last_m = x[2]
        elif kind == "CASH-FIRST":
            cash_first = x[5]
        elif kind == "CASH":
            # (if an attempt at this decision was refused, the interest of the period was credited THEN: the balance
            #  it accrued on is the one before that attempt)
            cash_snap = x[5] if cash_first is None else cash_first
            cash_first = None
        elif kind == "REB":
            k += 1
            if k >= len(trk):
                ctx.violation("C07:one-entry-per-decision", rebalances=k + 1, entries=len(trk))
                break
            rb = trk[k]
            if C08:
                # the execution happens AFTER the quotes in (t, t+latency] were applied: it carries their time
                ctx.check("C08:execution-after-latent-quotes", rb.time == last_m and all(t_.time == last_m for t_ in rb.trades),
                          stamp=rb.time, latest_applied=last_m, k=k)
            if C07:
                ctx.check("C07:stamp-latest-event", rb.time == last_m and rb.time == x[2], stamp=rb.time, latest=last_m, k=k)
                # interest on the cash balance read just before this rebalance
                if last_reb_time is None:
                    want_i = 0.0
                else:
                    want_i = interest_ref(cash_snap, cur_rate, fees.markup, (rb.time - last_reb_time).total_seconds())
                ctx.check("C07:interest-recorded", abs(float(rb.profit_on_idle_cash) - want_i) <= 1e-9 * max(1e-6, abs(cash_snap)) * max(1.0, (rb.time - (last_reb_time or rb.time)).total_seconds() / YEAR) + 1e-12,
                          recorded=float(rb.profit_on_idle_cash), want=want_i, cash=cash_snap, rate=cur_rate, k=k)
            last_reb_time = rb.time
            led.interest += float(rb.profit_on_idle_cash)
            pre = led.nlv()
            if C07 or C01:
                ctx.check(("C07" if C07 else "C01") + ":pre-nlv-replayed", abs(pre - rb.context_pre.nlv) <= REL * led.scale(),
                          k=k, ledger=pre, recorded=rb.context_pre.nlv)
            if C07:
                # the pre-trade snapshot is ONE state of the account: its cash, its posted margins and its fully-paid
                # positions (at the quotes of that instant) add up to its NLV
                snap_ = rb.context_pre
                parts = float(snap_.nr_contracts.get(Cash(), 0.0)) + sum(float(v_) for v_ in snap_.margins.values())
                for c_, p_ in led.pos.items():
                    if p_ != 0 and not gen.is_margined(c_) and not isinstance(c_, Cash):
                        parts += p_ * led.liq(c_) * c_.multiplier
                ctx.check("C07:snapshot-adds-up", abs(parts - float(snap_.nlv)) <= REL * led.scale(), k=k, cash_margins_spot=parts,
                          nlv=float(snap_.nlv), when="pre-trade")
            if C08:
                src = acts[k - d] if k - d >= 0 else None
                vals = alloc_denoted(src)
                want = {}
                for c, w in zip(cs, vals):
                    if w != 0 and not isinstance(c, Cash):
                        key = c.lead_contract(rb.time) if isinstance(c, FutureChain) else c
                        want[key] = w
                got = dict(rb.allocation)
                ctx.check("C08:fifo-delay", got == want, k=k, delay=d, executed={c.symbol: v for c, v in got.items()},
                          want={c.symbol: v for c, v in want.items()})
                ctx.cat("C08:null-executed" if src is None else "C08:delayed-executed")
            for t_ in rb.trades:
                c = t_.contract
                b_, a_ = led.quotes.get(c, (math.nan, math.nan))
                ap = a_ if t_.quantity > 0 else b_
                if C07:
                    ctx.check("C07:trade-quotes-as-logged", (t_.bid_price, t_.ask_price) == (b_, a_) and t_.acq_price == ap
                              and t_.time == rb.time,
                              k=k, trade=[t_.bid_price, t_.ask_price, t_.acq_price], logged=[b_, a_])
                if C08 and not cfg["chain"]:
                    lim = steps[k] + timedelta(seconds=L)
                    cand = [e for e in evs if isinstance(e, EventNBBO) and e.contract == c and e.time <= lim]
                    cand.sort(key=lambda e: e.time)
                    ctx.check("C08:latency-pricing", bool(cand) and (cand[-1].bid_price, cand[-1].ask_price) == (t_.bid_price, t_.ask_price),
                              k=k, latency=L, trade=[t_.bid_price, t_.ask_price],
                              want=[cand[-1].bid_price, cand[-1].ask_price] if cand else None)
                cm = led.trade(c, t_.quantity, ap)
                if C07:
                    ctx.check("C07:commission", abs(cm - t_.cost_of_commissions) <= 1e-12 * max(1.0, cm),
                              got=t_.cost_of_commissions, want=cm)
            post = led.nlv()
            if C07 or C01:
                ctx.check(("C07" if C07 else "C01") + ":post-nlv-replayed", abs(post - rb.context_post.nlv) <= REL * led.scale(),
                          k=k, ledger=post, recorded=rb.context_post.nlv)
            if C07:
                okh, okw = True, True
                for c in list(led.pos):
                    if abs(rb.context_post.nr_contracts.get(c, 0.0) - led.pos[c]) > REL * max(1.0, abs(led.pos[c])):
                        okh = False
                    ww = led.weight(c, post)
                    if abs(rb.context_post.weights.get(c, 0.0) - ww) > REL * max(1.0, abs(ww)) * max(1.0, led.scale() / abs(post)):
                        okw = False
                ctx.check("C07:holdings-recorded", okh, k=k, recorded=rb.context_post.nr_contracts, ledger=led.pos)
                ctx.check("C07:weights-recorded", okw, k=k, recorded=rb.context_post.weights)
            times.append(rb.time)
            prev_pre = rb.context_pre.nlv
    if C07:
        ctx.check("C07:times-strictly-increasing", all(a < b for a, b in zip(times, times[1:])), times=times[:10])
        if len(trk):
            nl = trk.net_liquidation_value()
            ok = list(nl.index) == [trk[j].time for j in range(len(trk))] and \
                all(float(nl.iloc[j, 0]) == float(trk[j].context_pre.nlv) for j in range(len(trk)))
            nl2 = trk.net_liquidation_value(before_rebalancing=False)
            ok = ok and all(float(nl2.iloc[j, 0]) == float(trk[j].context_post.nlv) for j in range(len(trk)))
            ctx.check("C07:nlv-series", ok)
            tc = trk.transaction_costs(cumulative=False)
            ok = all(abs(float(tc["Broker fees"].iloc[j]) - sum(t.cost_of_commissions for t in trk[j].trades)) <= 1e-12 * max(1.0, abs(float(tc["Broker fees"].iloc[j])))
                     and float(tc["Profit on idle Cash"].iloc[j]) == float(trk[j].profit_on_idle_cash)
                     and abs(float(tc["Spread"].iloc[j]) - sum(abs(t.quantity) * t.contract.multiplier * (t.ask_price - t.bid_price) for t in trk[j].trades)) <= 1e-9 * max(1.0, abs(float(tc["Spread"].iloc[j])))
                     for j in range(len(trk)))
            ctx.check("C07:transaction-costs-series", ok)
            if rng.random() < 0.2:
                # the record saved to disk and loaded again (and a deep copy of it) says the same as the live one
                import copy
                import shutil
                import tempfile
                from vf import ROOT
                from tradingenv.broker.track_record import TrackRecord
                os.makedirs(os.path.join(ROOT, ".work"), exist_ok=True)
                d_ = tempfile.mkdtemp(prefix="trk-", dir=os.path.join(ROOT, ".work"))
                try:
                    trk.save(d_, "record.pickle")
                    back = TrackRecord.load(os.path.join(d_, "record.pickle"))
                finally:
                    shutil.rmtree(d_, ignore_errors=True)
                for who, other_ in (("loaded", back), ("deep-copy", copy.deepcopy(trk))):
                    same = len(other_) == len(trk) and other_.net_liquidation_value().equals(nl) and \
                        other_.net_liquidation_value(before_rebalancing=False).equals(nl2) and \
                        other_.transaction_costs(cumulative=False).equals(tc) and \
                        all(other_[j].time == trk[j].time and len(other_[j].trades) == len(trk[j].trades) for j in range(len(trk)))
                    ctx.check("C07:record-survives-save-load", same, who=who, entries=[len(other_), len(trk)])
                ctx.cat("record-saved-and-loaded")
        if isinstance(rw, RewardSimpleReturn) and led.interest == 0.0 and L == 0 and nlv_end is not None and outs:
            # ("when no interest accrues": a zero rate is not enough - a markup charges borrowed cash)
            ctx.check("C07:simple-returns-compound", abs(simple_prod - nlv_end / cash0) <= 1e-9 * max(1.0, led.scale() / cash0) * len(outs),
                      product=simple_prod, ratio=nlv_end / cash0)
            ctx.cat("compound-checked")
    ctx.cat("reward:" + type(rw).__name__, "delay:{}".format(d), "latency:{}".format(L),
            "chain" if chain else "plain", "discrete" if discrete else "box", "late-fold" if cfg["i0"] else "full-fold",
            "rate-path" if cfg["userate"] else "no-rate")
    if cfg.get("nrc"):
        ctx.cat("positions-in-number-of-contracts")
    if cfg.get("zero_bar"):
        ctx.cat("bar-quotes-margined-contract-at-zero")
    if led.snaps:
        ctx.cat("epsilon-snap")
    ctx.notes["n_steps"] = len(outs)
    cfg["_prebuilt"] = (env, sink, cfg)
    if prebuilt is not None:
        ctx.cat("repeated-episode")
        return cfg, outs
    ctx.sample = {"contracts": [c.symbol if not isinstance(c, FutureChain) else "chain:" + c.contracts[0].symbol_short for c in cs],
                  "steps": len(outs), "latency": L, "delay": d, "reward": type(rw).__name__, "cash0": cash0,
                  "fees": {"fixed": fees.fixed, "proportional": fees.proportional, "markup": fees.markup},
                  "actions": [int(a) if isinstance(a, (int, np.integer)) else [float(z) for z in a] for a in acts[:6]],
                  "n_events": len(evs), "late_fold_start": cfg["i0"]}
    return cfg, outs
