"""Method wrappers (hooks on the *public* API, installed from outside the
repository with setattr on the classes), recorders, reach-set and failpoints.

Nothing here is active unless the guard TRADINGENV_VERIF=1 is set: without it
`install()` is a no-op and every check ends INCONCLUSIVE (monitor never hit).
"""
import collections
import random
import sys
from datetime import datetime

import numpy as np

from vf import REPO, hooks_enabled

_ACTIVE = []          # stack of active recorders (innermost last)
_INSTALLED = dict()   # (cls, name) -> original function
HITS = collections.Counter()   # wrapper hits per 'Class.method' (process-wide)


class Recorder:
    """Base class of monitors.  A subclass defines `pre_<Class>_<method>(self,
    obj, args, kwargs) -> token` and/or `post_<Class>_<method>(self, obj, args,
    kwargs, token, result, exc)`; both are optional."""

    def __init__(self):
        self.log = []
        self.hits = collections.Counter()

    def __enter__(self):
        _ACTIVE.append(self)
        return self

    def __exit__(self, *exc):
        if self in _ACTIVE:
            _ACTIVE.remove(self)
        return False


def deactivate_all():
    del _ACTIVE[:]


def _make_wrapper(cls, name, orig):
    label = "{}.{}".format(cls.__name__, name)
    pre_name = "pre_{}_{}".format(cls.__name__, name)
    post_name = "post_{}_{}".format(cls.__name__, name)

    def wrapper(self, *args, **kwargs):
        HITS[label] += 1
        if not _ACTIVE:
            return orig(self, *args, **kwargs)
        recs = list(_ACTIVE)
        tokens = []
        for rec in recs:
            rec.hits[label] += 1
            pre = getattr(rec, pre_name, None)
            tokens.append(pre(self, args, kwargs) if pre else None)
        try:
            result = orig(self, *args, **kwargs)
        except BaseException as exc:
            for rec, tok in zip(recs, tokens):
                post = getattr(rec, post_name, None)
                if post:
                    post(self, args, kwargs, tok, None, exc)
            raise
        for rec, tok in zip(recs, tokens):
            post = getattr(rec, post_name, None)
            if post:
                post(self, args, kwargs, tok, result, None)
        return result

    wrapper.__name__ = getattr(orig, "__name__", name)
    wrapper.__doc__ = getattr(orig, "__doc__", None)
    wrapper.__wrapped__ = orig
    wrapper._vf_wrapper = True
    return wrapper


def hook(cls, name):
    """Wrap cls.name once (idempotent)."""
    if not hooks_enabled():
        return False
    if (cls, name) in _INSTALLED:
        return True
    orig = cls.__dict__.get(name)
    if orig is None:
        orig = getattr(cls, name)
    if getattr(orig, "_vf_wrapper", False):
        return True
    _INSTALLED[(cls, name)] = orig
    setattr(cls, name, _make_wrapper(cls, name, orig))
    return True


def original(cls, name):
    return _INSTALLED.get((cls, name), getattr(cls, name))


def install():
    """Install the standard set of hooks on the public API."""
    if not hooks_enabled():
        return False
    from tradingenv.broker.broker import Broker
    from tradingenv.broker.rebalancing import Rebalancing
    from tradingenv.broker.track_record import TrackRecord
    for name in ("transact", "rebalance", "marking_to_market",
                 "net_liquidation_value", "holdings_weights", "context",
                 "accrued_interest", "holdings_values"):
        hook(Broker, name)
    hook(Rebalancing, "make_trades")
    from tradingenv.exchange import Exchange
    hook(Exchange, "process_EventNBBO")
    hook(Exchange, "process_EventContractDiscontinued")
    hook(TrackRecord, "_checkpoint") if hasattr(TrackRecord, "_checkpoint") else None
    return True


# --------------------------------------------------------------------------- #
# Process-wide state the repository keeps (and that cases must not inherit)
# --------------------------------------------------------------------------- #
def reset_process_state(np_seed: int):
    from tradingenv.contracts import AbstractContract
    AbstractContract.now = datetime.min
    np.random.seed(np_seed % (2 ** 32))
    random.seed(np_seed)


# --------------------------------------------------------------------------- #
# Reach set: which functions of tradingenv were entered (sys.monitoring).
# --------------------------------------------------------------------------- #
REACHED = set()
_REACH_TOOL = 3  # sys.monitoring.PROFILER_ID is 2; 3 is free for tools


def start_reach():
    mon = getattr(sys, "monitoring", None)
    if mon is None:
        return False
    prefix = REPO.rstrip("/") + "/tradingenv/"
    try:
        mon.use_tool_id(_REACH_TOOL, "vf-reach")
    except ValueError:
        return True

    def py_start(code, offset):
        fn = code.co_filename
        if fn.startswith(prefix):
            REACHED.add("{}:{}".format(fn[len(prefix):], code.co_qualname))
        return mon.DISABLE

    mon.register_callback(_REACH_TOOL, mon.events.PY_START, py_start)
    mon.set_events(_REACH_TOOL, mon.events.PY_START)
    return True


# --------------------------------------------------------------------------- #
# Failpoints: raise at a chosen (code, line, nth hit)  (sys.monitoring LINE)
# --------------------------------------------------------------------------- #
class Injected(Exception):
    """Raised by a failpoint."""


class Failpoints:
    TOOL = 4

    def __init__(self, codes):
        self.mon = sys.monitoring
        self.codes = list(codes)
        self.target = None
        self.nth = 1
        self.fired = 0
        self.injected = 0
        try:
            self.mon.use_tool_id(self.TOOL, "vf-failpoints")
        except ValueError:
            pass
        self.mon.register_callback(self.TOOL, self.mon.events.LINE, self._cb)
        for c in self.codes:
            self.mon.set_local_events(self.TOOL, c, self.mon.events.LINE)

    def points(self):
        pts = []
        for c in self.codes:
            lines = sorted({x[2] for x in c.co_lines() if x[2]})
            # first line is the 'def' line (RESUME): skip lines <= co_firstlineno
            pts.extend((c, l) for l in lines if l > c.co_firstlineno)
        return pts

    def _cb(self, code, line):
        if self.target is not None and self.target == (code, line):
            self.fired += 1
            if self.fired == self.nth:
                self.injected += 1
                raise Injected("{}:{}".format(code.co_qualname, line))

    def arm(self, point, nth=1):
        self.target = point
        self.nth = nth
        self.fired = 0

    def disarm(self):
        self.target = None

    def close(self):
        for c in self.codes:
            self.mon.set_local_events(self.TOOL, c, 0)
        self.mon.register_callback(self.TOOL, self.mon.events.LINE, None)
        try:
            self.mon.free_tool_id(self.TOOL)
        except Exception:
            pass
