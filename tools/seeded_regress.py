#!/venv/bin/python
"""Re-runs every stored seeded change against the current checks (primary
property only unless --all-listed) and updates meta.json.  Not a registered check.
usage: tools/seeded_regress.py [--jobs 8] [--tier quick] [--all-listed] [--only C11-B,C18-A | --only C11] [--dry]
(--dry: do not rewrite meta.json - for runs under another VERIF_SEED that ask which catches depend on the seed)"""
import concurrent.futures
import glob
import json
import os
import subprocess
import sys

ROOT = os.path.dirname(os.path.dirname(os.path.abspath(__file__)))


def one(path, tier, all_listed):
    d = os.path.dirname(path)
    m = json.load(open(path))
    props = sorted(set(m["caught_by"] + m["missed_by"])) if all_listed else [m["property"]]
    p = subprocess.run([os.path.join(ROOT, "tools", "seeded_eval.py"), os.path.join(d, "patch.diff"), os.path.join(d, "demo.py"),
                        "--props", ",".join(props), "--tier", tier, "--no-tests"], capture_output=True, text=True)
    try:
        res = json.loads(p.stdout)
    except ValueError:
        return m["id"], {"ERROR": (p.stderr or p.stdout).strip().splitlines()[-1:][0][:200] if (p.stderr or p.stdout).strip() else "?"}, None, None
    for k, v in res["checks"].items():
        m["what_was_run"]["checks_against_patched_tree (exit 1 = caught)"][k] = v
    allc = m["what_was_run"]["checks_against_patched_tree (exit 1 = caught)"]
    m["caught_by"] = sorted(k for k, v in allc.items() if v == 1)
    m["missed_by"] = sorted(k for k, v in allc.items() if v != 1)
    if "--dry" not in sys.argv:
        json.dump(m, open(path, "w"), indent=1)
    return m["id"], res["checks"], res["demo_with_patch"], res["demo_without_patch"]


def main():
    jobs = 8
    tier = "quick"
    for i, a in enumerate(sys.argv):
        if a == "--jobs":
            jobs = int(sys.argv[i + 1])
        if a == "--tier":
            tier = sys.argv[i + 1]
    all_listed = "--all-listed" in sys.argv
    paths = sorted(glob.glob(os.path.join(ROOT, "seeded", "*", "meta.json")))
    if "--only" in sys.argv:
        only = sys.argv[sys.argv.index("--only") + 1].split(",")
        paths = [p for p in paths if any(os.path.basename(os.path.dirname(p)).startswith(o) for o in only)]
    bad = []
    with concurrent.futures.ThreadPoolExecutor(jobs) as ex:
        for sid, checks, dw, dwo in ex.map(lambda p: one(p, tier, all_listed), paths):
            prim = sid.split("-")[0]
            ok = checks.get(prim) == 1 and dw != 0 and dwo == 0
            print("{:8s} {} demo={}/{} {}".format(sid, "CAUGHT" if ok else "MISSED", dw, dwo, checks), flush=True)
            if not ok:
                bad.append(sid)
    print("seeded changes: {}  caught by their property's check: {}  missed: {}".format(len(paths), len(paths) - len(bad), bad))


if __name__ == "__main__":
    main()
