#!/venv/bin/python
"""Prepares a round of independently written BEHAVIOUR-PRESERVING changes - NOT a registered check.

usage: tools/benign_round.py <round-tag>

The counterpart of tools/seed_round.py: the checks must stay silent on code where the
properties still hold.  One scratch worktree of /repo's HEAD per source area is created at
/tmp/<round-tag>-<area> with a TASK.md asking a fresh sub-agent (who sees nothing of /verif)
for two maintainers' refactors of that area that keep every public behaviour identical.
Each is then run against ALL quick checks (tools/seeded_eval.py <patch> <empty demo> --all):
an alarm or an INCONCLUSIVE verdict is either a refactor that is not behaviour-preserving
after all (then it is a catch) or a check that leans on an implementation detail (then the
check is corrected).  Kept under /verif/benign/<area>-<X>/.
"""
import os
import subprocess
import sys

AREAS = {
    "broker": "tradingenv/broker/broker.py (class Broker: transact, rebalance, marking_to_market, holdings_*, net_liquidation_value, accrued_interest, context)",
    "rebalancing": "tradingenv/broker/rebalancing.py and tradingenv/broker/allocation.py (Rebalancing.make_trades, Weights / NrContracts conversions)",
    "trackrecord": "tradingenv/broker/track_record.py, tradingenv/broker/trade.py and tradingenv/broker/fees.py",
    "exchange": "tradingenv/exchange.py (Exchange, LimitOrderBook)",
    "transmitter": "tradingenv/transmitter.py (Transmitter, AsynchronousTransmitter, Folds)",
    "env": "tradingenv/env.py, class TradingEnv only (reset, step, notify, _process_latent_events, _process_nonlatent_events, backtest)",
    "envxy": "tradingenv/env.py, class TradingEnvXY only (the tabular front-end: X/Y tables, windows, transformers, calendars)",
    "events": "tradingenv/events.py, tradingenv/state.py and tradingenv/features.py (Observer, IEvent and subclasses, IState, Feature)",
    "spaces": "tradingenv/spaces.py (PortfolioSpace, BoxPortfolio, DiscretePortfolio, make_rebalancing_request, null_action)",
    "contracts": "tradingenv/contracts.py (AbstractContract, Asset/ETF/Stock/Cash/Rate, Future and subclasses ES/NK/VX/ZN..., FutureChain)",
    "metrics": "tradingenv/metrics.py (pandas accessors and the functions behind them) and tradingenv/rewards.py",
}

TEMPLATE = """You are working alone in a scratch git worktree of the Python package `tradingenv` (an event-driven market simulator / gym environment: broker accounting with margins, fees and interest, an event transmitter, performance metrics). Your worktree is {WT} - a detached checkout of the repository's current HEAD. Work ONLY inside {WT}; do not read or write anything under /verif, /repo or other /tmp directories.

How to run things (the package must be imported from YOUR worktree, not from the installed copy):
  cd {WT} && PYTHONPATH={WT} /venv/bin/python -m pytest -q -p no:cacheprovider --no-cov --deselect tests/examples/test_readme.py tests      (about 35 s; everything must pass - the deselected file needs a module that is not installed)
There is no network. Some source files use CRLF line endings (tradingenv/env.py, events.py, exchange.py, rewards.py, __init__.py): when you edit them, keep the line endings (check with `git diff --stat` that only the lines you meant to change are touched).

YOUR AREA: {AREA}

YOUR TASK: act as a maintainer of this package and produce TWO independent changes (A and B) to your area, each of which is a realistic piece of maintenance work that keeps every PUBLIC behaviour of the package exactly as it is: same return values (bit for bit for floats), same exceptions (type, and the point at which they are raised relative to any state change) for every public call with every input, same order and content of events delivered to observers, same contents of every public attribute and of the track record. What may change is everything internal: private attributes and private methods (leading underscore) may be renamed, split, merged or removed; private data structures may be replaced (list vs deque vs dict, defaultdict vs dict with explicit keys, numpy array vs list); loops may be restructured or vectorised when the result is bit-identical; helpers may be extracted or inlined; independent statements may be reordered; values may be cached when the cache is correctly invalidated; internal calls between classes of the package may be re-routed through other existing public methods; redundant work may be skipped when it provably has no effect; docstrings, comments, type hints, error-message wording may change. Make the two changes substantial enough to matter (ten to sixty changed lines each), of different kinds, and touching the central code paths of your area rather than a corner.

Be rigorous about 'behaviour-preserving': think about every caller in the package, about subclasses users may have written against the PUBLIC interface, about repeated calls, resets and error paths. If you are not sure a change is observably identical, choose another one. Do not edit tests.

Deliver, in the worktree root, for X in {{A, B}}:
  - patchX.diff : `git diff -- tradingenv` of that change alone against HEAD (must apply with `git apply patchX.diff` on a clean checkout)
  - a section in NOTES.md: what was refactored, why it is behaviour-preserving, which private names changed
Verify: with patchX applied the test suite passes. Finish with the working tree clean (`git checkout -- tradingenv`) and only the new files patchA.diff, patchB.diff, NOTES.md added (untracked). Do not commit. Do not use `git stash` (it is shared between worktrees).

Your final message should summarise, for A and B: files/lines changed, what kind of refactor, private names affected, and the test-suite result.
"""


def main():
    tag = sys.argv[1]
    for area, text in AREAS.items():
        wt = "/tmp/%s-%s" % (tag, area)
        subprocess.check_call(["git", "-C", "/repo", "worktree", "add", "-q", "--detach", wt, "HEAD"])
        open(os.path.join(wt, "TASK.md"), "w").write(TEMPLATE.format(WT=wt, AREA=text))
        print(wt)


if __name__ == "__main__":
    main()
