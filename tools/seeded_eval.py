#!/venv/bin/python
"""Confirm a seeded change and run the checks against it - NOT a registered check.

usage: tools/seeded_eval.py <patch.diff> <demo.py> --props C01,C05 [--tier quick] [--no-tests] [--all]

Works on a scratch export of /repo's HEAD under /tmp (never on /repo itself, so
background runs that use /repo are not disturbed); the scratch copy is removed
afterwards.  Prints a JSON summary:
  tests_with_patch   : 'pass' / 'FAIL ...'      (repository's own suite, patched tree)
  demo_with_patch    : exit code (must be != 0)
  demo_without_patch : exit code (must be 0)
  checks             : {property: exit code of ./check <property> <tier> with VERIF_REPO=<patched tree>}
"""
import argparse
import json
import os
import shutil
import subprocess
import sys
import tempfile

ROOT = os.path.dirname(os.path.dirname(os.path.abspath(__file__)))
ALL = ["C%02d" % i for i in range(1, 20)]


def export(dst):
    p1 = subprocess.Popen(["git", "-C", "/repo", "archive", "HEAD"], stdout=subprocess.PIPE)
    subprocess.check_call(["tar", "-x", "-C", dst], stdin=p1.stdout)
    p1.wait()


def main():
    ap = argparse.ArgumentParser()
    ap.add_argument("patch")
    ap.add_argument("demo")
    ap.add_argument("--props", default="")
    ap.add_argument("--tier", default="quick")
    ap.add_argument("--no-tests", action="store_true")
    ap.add_argument("--all", action="store_true")
    args = ap.parse_args()
    props = ALL if args.all else [p for p in args.props.split(",") if p]
    scratch = tempfile.mkdtemp(prefix="vfseed-")
    clean = tempfile.mkdtemp(prefix="vfclean-")
    res = {"patch": args.patch}
    try:
        export(scratch)
        export(clean)
        subprocess.check_call(["git", "apply", "--whitespace=nowarn", os.path.abspath(args.patch)], cwd=scratch)
        env = dict(os.environ, PYTHONDONTWRITEBYTECODE="1")
        if not args.no_tests:
            p = subprocess.run(["/venv/bin/python", "-m", "pytest", "-q", "-p", "no:cacheprovider", "--no-cov",
                                "--deselect", "tests/examples/test_readme.py", "tests"],
                               cwd=scratch, capture_output=True, text=True, timeout=1200, env=dict(env, PYTHONPATH=scratch))
            res["tests_with_patch"] = "pass" if p.returncode == 0 else "FAIL " + (p.stdout.strip().splitlines() or [""])[-1]
        for label, tree in (("demo_with_patch", scratch), ("demo_without_patch", clean)):
            shutil.copy(os.path.abspath(args.demo), os.path.join(tree, "_vf_demo.py"))
            p = subprocess.run(["/venv/bin/python", "_vf_demo.py"], cwd=tree, capture_output=True, text=True,
                               timeout=600, env=dict(env, PYTHONPATH=tree))
            res[label] = p.returncode
        res["checks"] = {}
        res["first_clause"] = {}
        for prop in props:
            p = subprocess.run([os.path.join(ROOT, "check"), prop, args.tier], cwd=ROOT, capture_output=True, text=True,
                               timeout=7200, env=dict(env, VERIF_REPO=scratch, VERIF_OUT=scratch))
            res["checks"][prop] = p.returncode
            first = [l.strip() for l in p.stdout.splitlines() if l.startswith("  clause") or l.startswith("INCONCLUSIVE")][:1]
            if first:
                res["first_clause"][prop] = first[0][:240]
    finally:
        shutil.rmtree(scratch, ignore_errors=True)
        shutil.rmtree(clean, ignore_errors=True)
    print(json.dumps(res, indent=1))
    return 0


if __name__ == "__main__":
    sys.exit(main())
