#!/venv/bin/python
"""Confirm a sub-agent's seeded change and store it under /verif/seeded/<id>/.

usage: tools/adopt_seed.py <worktree> <A|B> <property> "<what it needs to manifest>" [--props C01,C05] [--tier quick]
Runs tools/seeded_eval.py (repository suite on the patched tree, demo with/without
the patch, the listed checks against the patched tree) and, when the change is
confirmed (suite passes, demo fails with it and passes without it), writes
seeded/<property>-<A|B>/{patch.diff, demo.py, meta.json, NOTES.md}."""
import json
import os
import shutil
import subprocess
import sys

ROOT = os.path.dirname(os.path.dirname(os.path.abspath(__file__)))


def main():
    wt, which, prop, needs = sys.argv[1:5]
    rest = sys.argv[5:]
    props = prop
    tier = "quick"
    label = which
    for a in rest:
        if a.startswith("--label="):
            label = a.split("=", 1)[1]
        if a.startswith("--props="):
            props = a.split("=", 1)[1]
        if a.startswith("--tier="):
            tier = a.split("=", 1)[1]
    patch = os.path.join(wt, "patch%s.diff" % which)
    demo = os.path.join(wt, "demo%s.py" % which)
    p = subprocess.run([os.path.join(ROOT, "tools", "seeded_eval.py"), patch, demo, "--props", props, "--tier", tier],
                       capture_output=True, text=True)
    res = json.loads(p.stdout)
    confirmed = res.get("tests_with_patch") == "pass" and res["demo_with_patch"] != 0 and res["demo_without_patch"] == 0
    sid = "%s-%s" % (prop, label)
    out = os.path.join(ROOT, "seeded", sid)
    meta = {
        "id": sid,
        "property": prop,
        "origin": "independent sub-agent given only the property text and a scratch worktree of /repo",
        "needs_to_manifest": needs,
        "confirmed": confirmed,
        "what_was_run": {
            "repository_suite_on_patched_tree": res.get("tests_with_patch"),
            "demo_exit_with_patch": res["demo_with_patch"],
            "demo_exit_without_patch": res["demo_without_patch"],
            "checks_against_patched_tree (exit 1 = caught)": res["checks"],
            "first_clause_reported": res.get("first_clause", {}),
            "tier": tier,
            "command": "tools/seeded_eval.py patch.diff demo.py --props %s --tier %s" % (props, tier),
        },
        "caught_by": sorted(k for k, v in res["checks"].items() if v == 1),
        "missed_by": sorted(k for k, v in res["checks"].items() if v != 1),
    }
    if confirmed:
        os.makedirs(out, exist_ok=True)
        shutil.copy(patch, os.path.join(out, "patch.diff"))
        shutil.copy(demo, os.path.join(out, "demo.py"))
        notes = os.path.join(wt, "NOTES.md")
        if os.path.exists(notes):
            shutil.copy(notes, os.path.join(out, "NOTES.md"))
        with open(os.path.join(out, "meta.json"), "w") as f:
            json.dump(meta, f, indent=1)
    print("%s confirmed=%s tests=%s demo=%s/%s checks=%s" % (sid, confirmed, res.get("tests_with_patch"),
                                                           res["demo_with_patch"], res["demo_without_patch"], res["checks"]))
    for k, v in res.get("first_clause", {}).items():
        print("    ", k, v[:200])


if __name__ == "__main__":
    main()
