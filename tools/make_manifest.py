#!/venv/bin/python
"""Regenerates /verif/MANIFEST.json from the metadata of the property modules."""
import importlib
import json
import os
import sys

ROOT = os.path.dirname(os.path.dirname(os.path.abspath(__file__)))
sys.path.insert(0, ROOT)
os.environ.setdefault("TRADINGENV_VERIF", "1")

ALL = ["C%02d" % i for i in range(1, 20)]
ENGINES = {
    "BL": ("vf/bl.py", "broker-level histories: Exchange+Broker driven directly, shadow ledger, C05 post-condition hooks"),
    "EP": ("vf/ep.py", "episode traces: real TradingEnv+Transmitter, recording observer, hooks on Broker.rebalance/transact"),
    "XY": ("vf/props/c18.py", "tabular environment TradingEnvXY against the tables it was given"),
    "CAL": ("vf/props/c19.py", "calendar enumeration against datetime/calendar-only reference"),
    "MET": ("vf/props/c16.py", "metrics against a pure-Python reference"),
    "LOB": ("vf/props/c14.py", "order-book reference model"),
}


def main():
    checks, na, serves = [], [], {k: [] for k in ENGINES}
    for pid in ALL:
        try:
            mod = importlib.import_module("vf.props." + pid.lower())
        except ModuleNotFoundError:
            na.append({"property_id": pid, "reason": "check not built yet (work in progress); the technique applies, see DESIGN.md section 5"})
            continue
        eng = getattr(mod, "ENGINE", "BL")
        for e in eng.split("+"):
            serves.setdefault(e, []).append(pid)
        checks.append({
            "property_id": pid,
            "quick_cmd": "./check {} quick".format(pid),
            "thorough_cmd": "./check {} thorough".format(pid),
            "evidence_file": "/verif/evidence/{}.json".format(pid),
            "replay_cmd_template": "./check %s --replay {path}" % pid,
            "engine": eng,
            "level_claimed": {
                "category": mod.LEVEL,
                "text": mod.LEVEL_TEXT,
                "design_ref": "DESIGN.md section 5, " + pid,
            },
            "level_note": mod.LEVEL_NOTE,
            "technique": mod.TECHNIQUE,
        })
    manifest = {
        "version": 1,
        "setup_cmd": "./check selftest",
        "hooks": {
            "guard": "TRADINGENV_VERIF",
            "enable": "no source hooks: ./check sets TRADINGENV_VERIF=1 and the harness wraps public methods of "
                      "tradingenv classes with setattr at run time (vf/monitor.py); with the guard unset nothing is wrapped "
                      "and every check exits INCONCLUSIVE. The repository is imported from its working tree ($VERIF_REPO, default /repo).",
            "baseline_off_cmd": "cd /repo && env -u TRADINGENV_VERIF /venv/bin/python -m pytest -ra -q -p no:cacheprovider --timeout=900 --continue-on-collection-errors",
            "source_commits": [],
            "add_only": True,
        },
        "engines": [
            {"name": k, "path": v[0], "serves_properties": serves.get(k, []), "kind_free_text": v[1]}
            for k, v in ENGINES.items()
        ],
        "checks": checks,
        "not_applicable": na,
        "notes": "Runtime monitoring only (DESIGN.md). Exit 0 = held on everything explored (KNOWN-FINDING lines for "
                 "findings listed in KNOWN_FINDINGS.txt), 1 = VIOLATION with replay file, 2 = INCONCLUSIVE (a deciding "
                 "monitor was never reached). Repository fixes are the fourteen 'fix:' commits recorded in KNOWN_FINDINGS.txt.",
    }
    with open(os.path.join(ROOT, "MANIFEST.json"), "w") as f:
        json.dump(manifest, f, indent=1)
        f.write("\n")
    try:
        import jsonschema
        jsonschema.validate(manifest, json.load(open("/root/.vp/MANIFEST.schema.json")))
        print("MANIFEST.json valid;", len(checks), "checks,", len(na), "not yet claimed")
    except ImportError:
        print("MANIFEST.json written (jsonschema not available in this interpreter);", len(checks), "checks")


if __name__ == "__main__":
    main()
