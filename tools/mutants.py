"""Mutants for the mutation audit: realistic single-site changes of tradingenv,
each listed with the properties whose checks must catch it."""

def M(id, props, *edits, note="", benign=False):
    return dict(id=id, props=props, edits=[tuple(e) for e in edits], note=note, benign=benign)

BROKER = "tradingenv/broker/broker.py"
ENV = "tradingenv/env.py"
TRANS = "tradingenv/transmitter.py"
EXCH = "tradingenv/exchange.py"
CONTR = "tradingenv/contracts.py"
SPACES = "tradingenv/spaces.py"
REBAL = "tradingenv/broker/rebalancing.py"
ALLOC = "tradingenv/broker/allocation.py"
TRADE = "tradingenv/broker/trade.py"
FEES = "tradingenv/broker/fees.py"
TRACK = "tradingenv/broker/track_record.py"
REWARDS = "tradingenv/rewards.py"
STATE = "tradingenv/state.py"
METRICS = "tradingenv/metrics.py"
EVENTS = "tradingenv/events.py"

MUTANTS = [
    # ------------------------------------------------------------------ C01/C05/C03
    M("revert-F1-multiplier", ["C01", "C05", "C03"],
      (BROKER, "value = contract.cash_requirement * quantity * liq_price * contract.multiplier",
       "value = contract.cash_requirement * quantity * liq_price")),
    M("revert-F2-carry", ["C01", "C03"],
      (BROKER, "                * (trade.acq_price - last_price)\n", "                * (trade.acq_price - last_price) * 0\n")),
    M("commission-sign", ["C01"],
      (BROKER, "self._holdings_quantity[self.base_currency] -= trade.cost_of_commissions",
       "self._holdings_quantity[self.base_currency] += trade.cost_of_commissions")),
    M("commission-not-abs", ["C01"],
      (FEES, "return self.fixed + abs(trade.notional) * self.proportional",
       "return self.fixed + trade.notional * self.proportional")),
    M("acq-side-swapped", ["C01", "C14"],
      (EXCH, "        if quantity < 0:\n            return self.bid_price\n        elif quantity > 0:\n            return self.ask_price",
       "        if quantity < 0:\n            return self.ask_price\n        elif quantity > 0:\n            return self.bid_price")),
    M("trade-cost-at-mid", ["C01"],
      (TRADE, "self.acq_price = ask_price if quantity > 0 else bid_price",
       "self.acq_price = (ask_price + bid_price) / 2")),
    M("mark-price-not-reset", ["C01"],
      (BROKER, "        self._last_marking_to_market_price[trade.contract] = trade.acq_price\n        self.marking_to_market(trade.contract)",
       "        self.marking_to_market(trade.contract)")),
    M("sweep-sign", ["C01", "C05"],
      (BROKER, "self._holdings_quantity[self.base_currency] += excess_margin",
       "self._holdings_quantity[self.base_currency] -= excess_margin")),
    M("margin-at-exec-price", ["C05"],
      (BROKER, "                liq_price * abs(quantity) * contract.multiplier * contract.margin_requirement\n",
       "                last_price * abs(quantity) * contract.multiplier * contract.margin_requirement\n")),
    M("margin-no-abs", ["C05"],
      (BROKER, "                liq_price * abs(quantity) * contract.multiplier * contract.margin_requirement\n",
       "                liq_price * quantity * contract.multiplier * contract.margin_requirement\n")),
    M("weights-on-mid", ["C05"],
      (BROKER, "        holdings_notional_values = self.holdings_values()\n        return {\n            contract: value / nlv",
       "        holdings_notional_values = {c: q * self.exchange[c].mid_price * c.multiplier if q else 0.0 for c, q in self._holdings_quantity.items()}\n        return {\n            contract: value / nlv")),
    M("no-sweep-small", ["C05"],
      (BROKER, "            excess_margin = current_margin - target_margin\n",
       "            excess_margin = current_margin - target_margin\n            if 0 < excess_margin < 1e-3 * target_margin:\n                excess_margin = 0.0\n"),
      note="excess margin below 0.1% is left in the margin account"),
    M("rebalance-at-mid", ["C03"],
      (ALLOC, "            avg_price = broker.exchange[contract].acq_price(weight)\n", "            avg_price = broker.exchange[contract].mid_price\n")),
    M("weights-on-post-cost-nlv", ["C03"],
      (ALLOC, "            nr_contracts[contract] = weight * nlv / avg_price / contract.multiplier",
       "            nr_contracts[contract] = weight * (nlv * (1 - broker.fees.proportional)) / avg_price / contract.multiplier")),
    M("untargeted-kept", ["C03", "C11", "C12"],
      (REBAL, "        for contract, quantity in imbalance.items():\n", "        for contract, quantity in imbalance.items():\n            if contract not in self.allocation:\n                continue\n")),
    M("target-uses-wrong-side-for-shorts", ["C03"],
      (ALLOC, "            avg_price = broker.exchange[contract].acq_price(weight)\n", "            avg_price = broker.exchange[contract].ask_price\n")),
    # ------------------------------------------------------------------ C06
    M("markup-sign", ["C06"],
      (BROKER, "cagr = order_book.mid_price - self.fees.markup * np.sign(amount)", "cagr = order_book.mid_price + self.fees.markup * np.sign(amount)")),
    M("year-360", ["C06"],
      (BROKER, "SECONDS_IN_YEAR = 365 * 24 * 60 * 60", "SECONDS_IN_YEAR = 360 * 24 * 60 * 60")),
    M("simple-interest", ["C06"],
      (BROKER, "rate_period = (1 + cagr) ** years - 1", "rate_period = cagr * years")),
    M("floor-removed", ["C06"],
      (BROKER, "        if amount > 0. and accrued_interest < 0.:\n            accrued_interest = 0.\n", "")),
    M("query-advances-clock", ["C06"],
      (BROKER, "            self._holdings_quantity[self.base_currency] += accrued_interest\n            self._last_accrual = now\n",
       "            self._holdings_quantity[self.base_currency] += accrued_interest\n        self._last_accrual = now\n")),
    M("interest-on-margin", ["C06"],
      (BROKER, "        amount = self._holdings_quantity[self.base_currency]\n", "        amount = self._holdings_quantity[self.base_currency] + sum(self._holdings_margins.values())\n")),
    M("markup-ignored-for-loans", ["C06"],
      (BROKER, "cagr = order_book.mid_price - self.fees.markup * np.sign(amount)", "cagr = order_book.mid_price - self.fees.markup * max(np.sign(amount), 0)")),
    M("earlier-time-accepted", ["C06"],
      (BROKER, "        if now < self._last_accrual:\n            raise ValueError(\"now={} < last_update={}\".format(now, self._last_accrual))\n", "        if now < self._last_accrual:\n            now = self._last_accrual\n")),
    # ------------------------------------------------------------------ C12
    M("revert-F8-sublot", ["C12"],
      (REBAL, "                if quantity == 0:\n                    # Imbalance is smaller than one lot. Nothing to trade.\n                    continue\n", "")),
    M("threshold-le", ["C12"],
      (REBAL, "if abs(weights[contract]) < self.margin and contract in self.allocation:", "if abs(weights[contract]) <= self.margin and contract in self.allocation:")),
    M("round-for-int", ["C12"],
      (REBAL, "                quantity = int(quantity)\n", "                quantity = int(round(quantity))\n")),
    M("threshold-on-liquidations", ["C12", "C11"],
      (REBAL, "if abs(weights[contract]) < self.margin and contract in self.allocation:", "if abs(weights[contract]) < self.margin:")),
    M("cash-traded", ["C12", "C17"],
      (ALLOC, "            if not isinstance(contract, Cash)\n", "")),
    M("floor-for-int", ["C12"],
      (REBAL, "                quantity = int(quantity)\n", "                import math; quantity = math.floor(quantity)\n")),
    # ------------------------------------------------------------------ C13
    M("nan-valued-as-zero", ["C13"],
      (BROKER, "                if np.isnan(liq_price):\n                    raise ValueError(\n                        \"Missing liquidation transaction_price for {}.\".format(contract)\n                    )\n",
       "                if np.isnan(liq_price):\n                    liq_price = 0.0\n")),
    M("trade-nan-check-dropped", ["C13"],
      (TRADE, "        if np.isnan(bid_price):\n            raise ValueError(\"Missing bid price for contract {}.\".format(contract))\n        if np.isnan(ask_price):\n            raise ValueError(\"Missing ask price for contract {}.\".format(contract))\n", "")),
    M("transact-while-building", ["C13"],
      (BROKER, "        rebalancing.trades = rebalancing.make_trades(self)\n        for trade in rebalancing.trades:\n            self.transact(trade)\n",
       "        rebalancing.trades = []\n        _mk = rebalancing.make_trades(self)\n        for trade in _mk:\n            self.transact(trade)\n            rebalancing.trades.append(trade)\n"),
      note="(control: same behaviour, must NOT be caught) - see lazy variant below", benign=True),
    M("lazy-trades", ["C13"],
      (REBAL, "            trades.append(trade)\n        return trades", "            broker.transact(trade) if False else trades.append(trade)\n            if len(trades) == 1 and len(imbalance) > 1:\n                broker.transact(trades.pop())\n                trades_done = getattr(self, '_done_trades', [])\n        return trades"),
      note="first trade is executed while the list is still being built"),
    M("dead-book-revived", ["C13", "C14"],
      (EXCH, "        if book.is_alive:\n            book.update(event)", "        book.update(event)")),
    # ------------------------------------------------------------------ C14
    M("terminate-not-blanking", ["C14"],
      (EXCH, "        history = self.history\n        self.__init__()\n        self.history = history\n", "")),
    M("history-not-appended", ["C14"],
      (EXCH, '        self.history["ask_price"].append(self.ask_price)\n', "")),
    M("history-for-rejected", ["C14"],
      (EXCH, "        if book.is_alive:\n            book.update(event)", "        if book.is_alive:\n            book.update(event)\n        else:\n            book.history['time'].append(event.time); book.history['bid_price'].append(event.bid_price); book.history['ask_price'].append(event.ask_price); book.history['mid_price'].append(event.mid_price)")),
    M("static-chain-key", ["C14", "C11"],
      (EXCH, "            key = key.static_hashing()  # TODO: Test", "            key = getattr(key, 'contracts', [key])[0] if not hasattr(self, '_x') else key")),
    M("mid-for-flat-wrong", ["C14"],
      (EXCH, "        elif quantity == 0:\n            return self.mid_price", "        elif quantity == 0:\n            return self.ask_price")),
]
