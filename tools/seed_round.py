#!/venv/bin/python
"""Prepares one round of independently seeded changes - NOT a registered check.

usage: tools/seed_round.py <round-tag> <angle> [C01 C02 ...]

For every property (default: all) creates a detached scratch worktree of /repo's
HEAD at /tmp/<round-tag>-<Cnn> holding PROPERTY.md (the property's text only) and
TASK.md (instructions for a fresh sub-agent: one change that breaks the property,
passes the repository's suite and needs something specific to manifest; the
mechanisms of earlier rounds are listed so that they are not repeated).  Nothing
from /verif other than the property text and those one-line descriptions reaches
the agent.  Afterwards: confirm + keep with tools/adopt_seed.py, then
`git -C /repo worktree remove --force /tmp/<round-tag>-<Cnn>`.
"""
import glob
import json
import os
import re
import subprocess
import sys

ROOT = os.path.dirname(os.path.dirname(os.path.abspath(__file__)))

TEMPLATE = """You are working alone in a scratch git worktree of the Python package `tradingenv` (an event-driven market simulator / gym environment: broker accounting with margins, fees and interest, an event transmitter, performance metrics). Your worktree is {WT} - a detached checkout of the repository's current HEAD. Work ONLY inside {WT}; do not read or write anything under /verif, /repo or other /tmp directories.

How to run things (the package must be imported from YOUR worktree, not from the installed copy):
  cd {WT} && PYTHONPATH={WT} /venv/bin/python -m pytest -q -p no:cacheprovider --no-cov --deselect tests/examples/test_readme.py tests      (about 35 s; everything must pass - the deselected file needs a module that is not installed)
  cd {WT} && PYTHONPATH={WT} /venv/bin/python demoA.py
There is no network. Some source files use CRLF line endings (tradingenv/env.py, events.py, exchange.py, rewards.py, __init__.py): when you edit them, keep the line endings (check with `git diff --stat` that only the lines you meant to change are touched).

The property (also in {WT}/PROPERTY.md):

{PROP}

YOUR TASK: produce ONE realistic change (call it A) to the source under {WT}/tradingenv/ such that the change, applied to the unchanged tree,
  1. BREAKS the property above (a user relying on it would get wrong results or a wrong failure), and
  2. still imports/compiles and passes the existing test suite (command above), and
  3. needs something specific to manifest - a particular multi-step sequence of operations, an unusual but valid input or configuration, a particular placement/ordering/interleaving of events or calls, a fault at a particular point, or two cooperating sites that each look fine on their own - NOT something that ordinary use or the simplest example would expose at once. Think of the kind of bug a plausible refactor, optimisation, 'cleanup' or off-by-one would introduce.
Do not edit tests. Keep the change small (a few lines).

Deliver, in the worktree root (X = A):
  - patchX.diff : `git diff -- tradingenv` of that change alone against HEAD (must apply with `git apply patchX.diff` on a clean checkout)
  - demoX.py    : a small standalone program that exits 0 on the unchanged code and exits non-zero (failed assertion) when patchX is applied; it should state in a comment what it does
  - a section in NOTES.md: which part of the property it breaks, what exactly is needed for it to manifest, and the commands you ran with their outcomes
Verify all of it yourself: with patchX applied the test suite passes and demoX fails; with the patch reverted (`git checkout -- tradingenv`) demoX passes. Finish with the working tree clean (`git checkout -- tradingenv`) and only the new files patchA.diff, demoA.py, NOTES.md added (untracked). Do not commit. Do not use `git stash` (it is shared between worktrees).

Your final message should summarise: the files/lines changed, the mechanism, what it needs to manifest, and the verification results (test-suite result with patch, demo result with and without patch).
"""

ANGLES = {
    "numerical": "numerical and boundary behaviour. Look for places where a comparison operator, a rounding/truncation, a tolerance, a unit (seconds/days/years, weight/contracts, bid/ask/mid), a sign, an inclusive/exclusive bound, an off-by-one in an index or slice, or the order of two arithmetic steps can be changed so that results stay identical on ordinary inputs but are wrong at a boundary value, for a rarely used parameter value, or by a numerically small but systematic amount.",
    "state": "state, aliasing and ordering. Look for places where an object is shared instead of copied, a cache or memo is introduced, an attribute is initialised at the wrong scope (class vs instance, constructor vs reset), two statements are reordered, a default argument is mutable, an early return/continue skips an update, or an exception path leaves state half-updated - so that a single straightforward use is unaffected but a particular sequence of calls, a particular combination of two options, or a reuse of an object gives wrong results.",
    "types": "input shapes, types and optional arguments. Look for places where the code branches on (or silently depends on) the type, shape, ordering or emptiness of an argument - scalar vs list vs dict vs numpy array vs pandas Series/DataFrame, int vs float vs numpy scalar, sorted vs unsorted, duplicates, one element vs many, empty, naive vs timezone-aware, str vs object keys - or on an optional argument / flag whose non-default value is rarely used, so that a change keeps the common call identical but is wrong for another legitimate way of calling the same public API.",
    "optimisation": "performance-motivated rewrites. Look for loops replaced by vectorised numpy/pandas expressions, dictionaries or sets replacing ordered lists, values computed once and reused where they should be recomputed, work skipped when 'nothing changed', in-place updates replacing fresh objects, lower-precision dtypes, and incremental updates replacing recomputation from scratch - rewrites that give identical results on typical data but drift, reorder, go stale or lose precision under a particular data pattern or call sequence.",
}

ANGLES["lifecycle"] = "less common public entry points and object life cycle. Look at the public ways of doing the same thing that ordinary examples do not use - TradingEnv.backtest() with a policy instead of a reset/step loop, reset(fold=..., episode_length=...), env.notify() called by the user, Broker / Exchange / Transmitter methods called directly between steps, TrackRecord.save / load, copy.copy / copy.deepcopy / pickle of environments, brokers, spaces, contracts and chains, subclasses that override a public method, objects constructed once and reused for several environments - and find a change that keeps the ordinary reset/step path identical but is wrong for one of these."

ANGLES["recovery"] = "exception safety and recovery. Many public calls can legitimately raise - an invalid action or argument, a missing or NaN quote, a discontinued contract, an insolvent account, the end of the data, a refused reset, a time that goes backwards. Look for changes after which the call still raises exactly as before, but leaves an object (environment, broker, exchange, transmitter, space, state, track record, series) in a state from which LATER correct use gives wrong results: something updated before the check that raises, a flag or cache set and not restored, a queue or cursor advanced, a partial result kept. The caller catches the exception and carries on (next step, next rebalance, reset, next episode, next metric)."
ANGLES["time"] = "time and calendar edge cases. Look at how timestamps are compared, bucketed, converted and subtracted: timezone-aware versus naive timestamps, daylight-saving transitions, leap days and leap years, month / quarter / year boundaries, weekends and holidays, timestamps that differ by microseconds, several events with exactly the same timestamp, dates before 1970 or after 2038 / 2100, pandas Timestamp versus datetime versus numpy datetime64, day counts (365 / 365.25 / 366 / 252) - and find a change that is invisible on an ordinary daily business-day series of one year but wrong at one of these."
ANGLES["combos"] = "interactions between two optional features. Each optional argument or feature is usually tested alone. Look for changes that are invisible when any single option is used but wrong for a particular COMBINATION of two: latency with steps_delay, episode_length with folds or sampling_span, markov_reset with warmup, fit_transformers with folds, futures chains with a trading threshold or with whole-lot trading, fees with number-of-contract targets, a reference rate with margined contracts, DataFrame inputs with a risk-free series, window with stride, and so on."

ANGLES["extension"] = "user extension points and duck typing. The library is meant to be extended: users write their own contracts (subclasses of AbstractContract / Asset / Future with their own multiplier, margin_requirement, cash_requirement, symbol, expiry), their own events (subclasses of IEvent / EventNBBO with extra fields), their own features and states (Feature / IState subclasses with process_<Event> callbacks, parse, spaces, transformers), their own rewards (AbstractReward subclasses that read the environment), their own action spaces (PortfolioSpace subclasses overriding _make_allocation / make_rebalancing_request / null_action), their own fee schedules (IBrokerFees subclasses) and policies (AbstractPolicy for backtest). Look for changes that keep every built-in class working identically but are wrong for a legitimate user-defined subclass or duck-typed object: an isinstance test against a concrete built-in class, a name / symbol / class-name used as key instead of the object, an attribute read from the class instead of the instance (or once at construction instead of at use), a method of the base class called instead of the (overridden) one of the object, a property assumed constant, an assumption about __eq__ / __hash__ / ordering of user contracts, a callback signature assumption."
ANGLES["scale"] = "size, ordering and multiplicity. Most examples use one to three contracts, one feature, a few dozen timesteps. Look for changes that are invisible at that size but wrong with MANY or with a particular ORDER or MULTIPLICITY: more than a handful of contracts in a portfolio (ordering of contracts vs ordering of weights, sorted vs insertion order, dict / set iteration order, symbols that sort differently as strings vs objects, two contracts whose symbols share a prefix), contracts listed twice, many events on one timestamp, several event types interleaved on the same instant, several features subscribing to the same event, several observers, long episodes (hundreds of steps: accumulating float error, deque / list growth, recursion), very short ones (one or two timesteps), very many folds, very large or very small monetary scales (1e-6 .. 1e12), prices spanning orders of magnitude across contracts."

ALSO = {
    "C09": "Also already known on the unchanged code (not what you are asked for): TradingEnv.step lets EndOfEpisodeError escape from the reward computation when the account is insolvent at the end of a step; a decision whose own trading costs push NLV <= 0 raises from Broker.rebalance after trading.",
    "C10": "Also already known on the unchanged code (not what you are asked for): environments built without `state` share the default IState() instance; building a portfolio space over a FutureChain while AbstractContract.now is outside the chain's span raises IndexError.",
    "C07": "Also already known on the unchanged code (not what you are asked for): a decision whose own trading costs push NLV <= 0 is executed but gets no track-record entry.",
}


def main():
    tag, angle = sys.argv[1], sys.argv[2]
    only = set(sys.argv[3:])
    for line in open(os.path.join(ROOT, "properties.jsonl")):
        p = json.loads(line)
        pid = p["id"]
        if only and pid not in only:
            continue
        wt = "/tmp/%s-%s" % (tag, pid)
        subprocess.check_call(["git", "-C", "/repo", "worktree", "add", "-q", "--detach", wt, "HEAD"])
        prop = "# %s - %s\n\n%s\n\nQuantifier: %s\n" % (pid, p["title"], p["statement"], p["quantifier"]["text"])
        prev = []
        for m in sorted(glob.glob(os.path.join(ROOT, "seeded", pid + "-*", "meta.json"))):
            j = json.load(open(m))
            d = os.path.dirname(m)
            files = sorted(set(re.findall(r"^\+\+\+ b/(\S+)", open(os.path.join(d, "patch.diff")).read(), re.M)))
            prev.append("- (%s) needs: %s" % (", ".join(files), j["needs_to_manifest"]))
        extra = ("\n\nANGLE FOR THIS ASSIGNMENT: " + ANGLES[angle] +
                 "\n\nPREVIOUS ROUNDS. Other engineers already produced the changes listed below for this property; do NOT repeat "
                 "these mechanisms or variations of them - choose a different code site or a different triggering condition:\n" +
                 "\n".join(prev) + "\n")
        if pid in ALSO:
            extra += "\n" + ALSO[pid] + "\n"
        open(os.path.join(wt, "PROPERTY.md"), "w").write(prop)
        open(os.path.join(wt, "TASK.md"), "w").write(TEMPLATE.replace("{WT}", wt).replace("{PROP}", prop + extra))
        print(wt)


if __name__ == "__main__":
    main()
