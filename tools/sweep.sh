#!/bin/bash
# usage: tools/sweep.sh <tier> <seeds...>   (env VERIF_TIME to cap each check)
# Runs every registered check for each seed; prints one line per run.
tier=$1; shift
cd "$(dirname "$0")/.."
for seed in "$@"; do
  for p in C01 C02 C03 C04 C05 C06 C07 C08 C09 C10 C11 C12 C13 C14 C15 C16 C17 C18 C19; do
    out=$(VERIF_SEED=$seed ./check $p $tier 2>&1); rc=$?
    echo "seed=$seed $p $tier exit=$rc :: $(echo "$out" | grep -v '^KNOWN-FINDING' | tail -1 | cut -c1-300)"
    if [ $rc -ne 0 ]; then echo "$out" | grep -E 'VIOLATION|INCONCLUSIVE|clause' | head -6 | cut -c1-600; fi
  done
done
