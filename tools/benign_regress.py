#!/venv/bin/python
"""Re-runs every stored behaviour-preserving change (benign/*/patch.diff) against ALL current quick checks and
rewrites its meta.json - NOT a registered check.   usage: tools/benign_regress.py [--jobs 4] [--only env,broker]
(each change is evaluated by tools/benign_eval.py logic on a scratch export of /repo's HEAD)."""
import glob
import json
import os
import subprocess
import sys

ROOT = os.path.dirname(os.path.dirname(os.path.abspath(__file__)))


def main():
    jobs = sys.argv[sys.argv.index("--jobs") + 1] if "--jobs" in sys.argv else "8"
    only = sys.argv[sys.argv.index("--only") + 1].split(",") if "--only" in sys.argv else None
    loud = []
    for d in sorted(glob.glob(os.path.join(ROOT, "benign", "*"))):
        name = os.path.basename(d)
        area, x = name.rsplit("-", 1)
        if only and area not in only:
            continue
        # benign_eval copies <worktree>/patch<X>.diff: present the stored patch under that name
        tmp = os.path.join(d, "patch%s.diff" % x)
        with open(os.path.join(d, "patch.diff"), "rb") as f, open(tmp, "wb") as g:
            g.write(f.read())
        try:
            p = subprocess.run([os.path.join(ROOT, "tools", "benign_eval.py"), d, x, area, "--jobs", jobs, "--no-tests"],
                               capture_output=True, text=True)
        finally:
            os.remove(tmp)
        line = (p.stdout.strip().splitlines() or [p.stderr.strip()[-300:]])[-1]
        print(line[:600], flush=True)
        m = json.load(open(os.path.join(d, "meta.json")))
        if m.get("not_silent"):
            loud.append(name)
    print("behaviour-preserving changes: re-run; not silent:", loud)


if __name__ == "__main__":
    main()
