#!/bin/bash
seed=$1; shift
for p in "$@"; do
  out=$(VERIF_SEED=$seed ./check $p thorough 2>&1); rc=$?
  echo "seed=$seed $p thorough exit=$rc :: $(echo "$out" | grep -v '^KNOWN-FINDING' | tail -1 | cut -c1-300)"
  if [ $rc -ne 0 ]; then echo "$out" | grep -E 'VIOLATION|INCONCLUSIVE|clause' | head -6 | cut -c1-600; fi
done
