#!/venv/bin/python
"""Runs ALL quick checks against a behaviour-preserving change - NOT a registered check.

usage: tools/benign_eval.py <worktree> <A|B> <area> [--jobs 8] [--no-tests]

Copies <worktree>/patch<X>.diff to /verif/benign/<area>-<X>/patch.diff, applies it to a scratch
export of /repo's HEAD under /tmp (removed afterwards), runs the repository's suite and then every
registered quick check with VERIF_REPO pointing at the patched tree.  Writes meta.json with the exit
code of every check (0 = silent, which is what a behaviour-preserving change must give) and the
first reported clause of every check that was not silent.
"""
import concurrent.futures
import json
import os
import shutil
import subprocess
import sys
import tempfile

ROOT = os.path.dirname(os.path.dirname(os.path.abspath(__file__)))
ALL = ["C%02d" % i for i in range(1, 20)]


def run_check(prop, scratch, out):
    env = dict(os.environ, PYTHONDONTWRITEBYTECODE="1", VERIF_REPO=scratch, VERIF_OUT=out)
    p = subprocess.run([os.path.join(ROOT, "check"), prop, "quick"], cwd=ROOT, capture_output=True, text=True, timeout=7200, env=env)
    first = [l.strip() for l in p.stdout.splitlines() if l.startswith("  clause") or l.startswith("INCONCLUSIVE")][:1]
    return prop, p.returncode, (first[0][:700] if first else (p.stderr.strip().splitlines() or [""])[-1][:300] if p.returncode else "")


def main():
    wt, x, area = sys.argv[1:4]
    jobs = int(sys.argv[sys.argv.index("--jobs") + 1]) if "--jobs" in sys.argv else 8
    dst = os.path.join(ROOT, "benign", "%s-%s" % (area, x))
    os.makedirs(dst, exist_ok=True)
    if os.path.abspath(wt) != os.path.abspath(dst):
        shutil.copy(os.path.join(wt, "patch%s.diff" % x), os.path.join(dst, "patch.diff"))
    scratch = tempfile.mkdtemp(prefix="vfbenign-")
    out = tempfile.mkdtemp(prefix="vfbenignout-")
    prev = {}
    if os.path.exists(os.path.join(dst, "meta.json")):
        prev = json.load(open(os.path.join(dst, "meta.json")))
    meta = {"id": "%s-%s" % (area, x), "area": area,
            "origin": "independent sub-agent asked for a behaviour-preserving refactor of this area (saw nothing of /verif)"}
    try:
        p1 = subprocess.Popen(["git", "-C", "/repo", "archive", "HEAD"], stdout=subprocess.PIPE)
        subprocess.check_call(["tar", "-x", "-C", scratch], stdin=p1.stdout)
        p1.wait()
        subprocess.check_call(["git", "apply", "--whitespace=nowarn", os.path.join(dst, "patch.diff")], cwd=scratch)
        if "--no-tests" in sys.argv and "repository_suite_on_patched_tree" in prev:
            meta["repository_suite_on_patched_tree"] = prev["repository_suite_on_patched_tree"]
        if "--no-tests" not in sys.argv:
            p = subprocess.run(["/venv/bin/python", "-m", "pytest", "-q", "-p", "no:cacheprovider", "--no-cov",
                                "--deselect", "tests/examples/test_readme.py", "tests"], cwd=scratch, capture_output=True, text=True,
                               timeout=1800, env=dict(os.environ, PYTHONPATH=scratch, PYTHONDONTWRITEBYTECODE="1"))
            meta["repository_suite_on_patched_tree"] = "pass" if p.returncode == 0 else "FAIL " + (p.stdout.strip().splitlines() or [""])[-1]
        with concurrent.futures.ThreadPoolExecutor(jobs) as ex:
            res = list(ex.map(lambda pr: run_check(pr, scratch, out), ALL))
        meta["checks (0 = silent)"] = {p: rc for p, rc, _ in res}
        meta["not_silent"] = {p: msg for p, rc, msg in res if rc != 0}
    finally:
        shutil.rmtree(scratch, ignore_errors=True)
        shutil.rmtree(out, ignore_errors=True)
    json.dump(meta, open(os.path.join(dst, "meta.json"), "w"), indent=1)
    print(meta["id"], "suite=" + str(meta.get("repository_suite_on_patched_tree")), "not silent:", json.dumps(meta["not_silent"])[:1500])


if __name__ == "__main__":
    main()
