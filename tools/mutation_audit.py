#!/venv/bin/python
"""Mutation audit of the monitors (DESIGN section 6) - NOT a registered check.

Each mutant in tools/mutants.py is a textual replacement in one file of
tradingenv.  For each selected mutant: copy /repo (tradingenv + tests) to a
scratch directory under /tmp, apply the replacement (newline-preserving, some
files are CRLF), optionally run the repository's own test-suite against the
mutant (--tests) to confirm it still passes, then run
`VERIF_REPO=<scratch> ./check <prop> quick` for every property the mutant is
expected to break; the check must exit 1.  Scratch copies are deleted.

usage: tools/mutation_audit.py [--tests] [--only id,id] [--props C01,C05] [--jobs 8] [--tier quick]
"""
import argparse
import concurrent.futures
import json
import os
import shutil
import subprocess
import sys
import tempfile
import time

ROOT = os.path.dirname(os.path.dirname(os.path.abspath(__file__)))
sys.path.insert(0, os.path.join(ROOT, "tools"))
from mutants import MUTANTS  # noqa


def apply(scratch, m):
    for (rel, old, new) in m["edits"]:
        path = os.path.join(scratch, rel)
        with open(path, newline="") as f:
            s = f.read()
        crlf = "\r\n" in s
        o, n = old, new
        if crlf:
            o = o.replace("\r\n", "\n").replace("\n", "\r\n")
            n = n.replace("\r\n", "\n").replace("\n", "\r\n")
        if s.count(o) != 1:
            raise RuntimeError("mutant {}: pattern found {} times in {}".format(m["id"], s.count(o), rel))
        with open(path, "w", newline="") as f:
            f.write(s.replace(o, n))


def run_one(m, args):
    scratch = tempfile.mkdtemp(prefix="vfmut-{}-".format(m["id"]))
    res = dict(id=m["id"], props={}, tests=None, benign=m.get("benign", False))
    try:
        shutil.copytree("/repo/tradingenv", os.path.join(scratch, "tradingenv"))
        apply(scratch, m)
        if args.tests:
            shutil.copytree("/repo/tests", os.path.join(scratch, "tests"))
            for f in ("setup.cfg", "pyproject.toml", "README.md"):
                if os.path.exists("/repo/" + f):
                    shutil.copy("/repo/" + f, scratch)
            p = subprocess.run(
                ["/venv/bin/python", "-m", "pytest", "-q", "-x", "-p", "no:cacheprovider", "--no-cov",
                 "--deselect", "tests/examples/test_readme.py", "tests"],
                cwd=scratch, capture_output=True, text=True, timeout=900,
                env=dict(os.environ, PYTHONPATH=scratch, PYTHONDONTWRITEBYTECODE="1"))
            tail = p.stdout.strip().splitlines()[-1:] or [""]
            res["tests"] = "pass" if p.returncode == 0 else "FAIL: " + tail[0]
        props = [p for p in m["props"] if not args.props or p in args.props]
        for prop in props:
            t0 = time.time()
            env = dict(os.environ, VERIF_REPO=scratch, VERIF_OUT=scratch)
            p = subprocess.run([os.path.join(ROOT, "check"), prop, args.tier], cwd=ROOT, env=env,
                               capture_output=True, text=True, timeout=3600)
            first = [l for l in p.stdout.splitlines() if l.startswith(("  clause", "INCONCLUSIVE"))][:1]
            res["props"][prop] = dict(exit=p.returncode, wall=round(time.time() - t0, 1),
                                      first=(first[0][:300] if first else p.stdout[-300:] + p.stderr[-300:]))
    except Exception as e:  # noqa
        res["error"] = repr(e)
    finally:
        shutil.rmtree(scratch, ignore_errors=True)
    return res


def main():
    ap = argparse.ArgumentParser()
    ap.add_argument("--tests", action="store_true")
    ap.add_argument("--only", default="")
    ap.add_argument("--props", default="")
    ap.add_argument("--jobs", type=int, default=8)
    ap.add_argument("--tier", default="quick")
    ap.add_argument("--out", default="")
    args = ap.parse_args()
    args.props = [p for p in args.props.split(",") if p]
    only = [x for x in args.only.split(",") if x]
    ms = [m for m in MUTANTS if (not only or m["id"] in only)
          and (not args.props or set(m["props"]) & set(args.props))]
    results = []
    with concurrent.futures.ThreadPoolExecutor(args.jobs) as ex:
        for r in ex.map(lambda m: run_one(m, args), ms):
            results.append(r)
            want = 0 if r.get("benign") else 1
            status = " ".join("{}={}".format(p, ("QUIET" if want == 0 else "CAUGHT") if v["exit"] == want else
                                             ("FALSE-ALARM" if want == 0 else "MISSED") + "(exit {})".format(v["exit"]))
                              for p, v in r["props"].items())
            print("{:34s} tests={} {} {}".format(r["id"], r["tests"], status, r.get("error", "")), flush=True)
            for p, v in r["props"].items():
                if v["exit"] != want:
                    print("      ", p, v["first"])
    missed = [r["id"] for r in results if any(v["exit"] != (0 if r.get("benign") else 1) for v in r["props"].values()) or "error" in r]
    print("mutants: {}  fully caught: {}  missed: {}".format(len(results), len(results) - len(missed), missed))
    if args.out:
        with open(args.out, "w") as f:
            json.dump(results, f, indent=1)
    return 0


if __name__ == "__main__":
    sys.exit(main())
