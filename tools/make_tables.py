#!/venv/bin/python
"""Regenerates the audit tables of DESIGN.md (between the AUTO markers) from
seeded/*/meta.json and audit/mutation_audit.json."""
import glob
import json
import os
import re
import sys

ROOT = os.path.dirname(os.path.dirname(os.path.abspath(__file__)))
sys.path.insert(0, os.path.join(ROOT, "tools"))


def seeded_table():
    rows = ["| id | property | needs, in order to manifest | suite with change | caught by (quick tier) | not caught by |",
            "|---|---|---|---|---|---|"]
    for path in sorted(glob.glob(os.path.join(ROOT, "seeded", "*", "meta.json"))):
        m = json.load(open(path))
        rows.append("| {} | {} | {} | {} | {} | {} |".format(
            m["id"], m["property"], m["needs_to_manifest"].replace("|", "/"),
            m["what_was_run"]["repository_suite_on_patched_tree"],
            ", ".join(m["caught_by"]) or "-", ", ".join(m["missed_by"]) or "-"))
    return "\n".join(rows)


def mutant_table():
    from mutants import MUTANTS
    path = os.path.join(ROOT, "audit", "mutation_audit.json")
    res = {r["id"]: r for r in json.load(open(path))} if os.path.exists(path) else {}
    rows = ["| mutant | file | expected | repository suite | result per check |", "|---|---|---|---|---|"]
    n = caught = quiet = 0
    for m in MUTANTS:
        r = res.get(m["id"])
        if r is None:
            continue
        want = 0 if m.get("benign") else 1
        per = ", ".join("{}={}".format(p, ("quiet" if want == 0 else "caught") if v["exit"] == want else "exit %d" % v["exit"])
                        for p, v in r["props"].items())
        ok = all(v["exit"] == want for v in r["props"].values())
        n += 1
        caught += ok and want == 1
        quiet += ok and want == 0
        rows.append("| {} | {} | {} | {} | {} |".format(
            m["id"], m["edits"][0][0].replace("tradingenv/", ""), "quiet (benign refactor)" if want == 0 else "caught",
            (r.get("tests") or "-").replace("|", "/")[:60], per))
    head = "{} mutants audited: {} real ones caught by every check listed for them, {} benign refactors left quiet.\n\n".format(
        n, caught, quiet)
    return head + "\n".join(rows)


def main():
    p = os.path.join(ROOT, "DESIGN.md")
    s = open(p).read()
    for name, fn in (("SEEDED", seeded_table), ("MUTANTS", mutant_table)):
        a, b = "<!-- AUTO:%s:BEGIN -->" % name, "<!-- AUTO:%s:END -->" % name
        if a in s and b in s:
            s = s[: s.index(a) + len(a)] + "\n" + fn() + "\n" + s[s.index(b):]
    open(p, "w").write(s)
    print("tables regenerated")


if __name__ == "__main__":
    main()
